#!/bin/sh
# usage: [LANE=n] eval_mutant.sh <patch file> <label> <property id>...
# Runs the named quick checks against a scratch worktree of /repo with the patch applied, without
# touching /repo or /verif's evidence: the simulator is built from a copy of /verif/sim whose
# memvid-core dependency points at the worktree. Prints one line per check. Several lanes can run
# side by side (separate worktree, build directory and CPU set per lane).
PATCH=$1; LABEL=$2; shift 2
L=${LANE:-0}
WT=/tmp/mutrepo$L; SIM=/tmp/mutsim$L; VD=/tmp/mutsim-verif$L; TG=/tmp/mutsim-target$L
export CARGO_NET_OFFLINE=true
export MEMSIM_JOBS=${MEMSIM_JOBS:-8} MEMSIM_PIN_BASE=$((L * 8)) MEMSIM_BACKSTOP_MULT=${MEMSIM_BACKSTOP_MULT:-15}
[ -d $WT ] || git -C /repo worktree add --detach $WT HEAD >/dev/null 2>&1
cd $WT && git checkout -q --detach $(git -C /repo rev-parse HEAD) && git checkout -q -- . || exit 2
if [ "$PATCH" != "none" ]; then git apply --whitespace=nowarn "$PATCH" || { echo "$LABEL: PATCH DOES NOT APPLY"; exit 2; }; fi
rm -rf $SIM; mkdir -p $SIM $VD/evidence $VD/replays
S=${SIM_SRC:-/verif/sim}; cp -r $S/src $S/Cargo.toml $S/Cargo.lock $SIM/
[ -d /verif/sim/.cargo ] && cp -r /verif/sim/.cargo $SIM/
sed -i "s|path = \"/repo\"|path = \"$WT\"|" $SIM/Cargo.toml
cp /verif/KNOWN_FINDINGS.jsonl $VD/
cd $SIM && cargo build --release --offline -j 8 --target-dir $TG >$VD/build.log 2>&1 || { echo "$LABEL: BUILD FAILED"; tail -20 $VD/build.log; cd $WT; git checkout -q -- .; exit 2; }
cd $VD
for P in "$@"; do
  s=$(date +%s)
  VERIF_DIR=$VD VERIF_SEED=${VERIF_SEED:-1} $TG/release/memsim check --property $P --tier ${TIER:-quick} > $VD/$LABEL-$P.log 2>&1
  rc=$?
  echo "$LABEL $P exit=$rc secs=$(( $(date +%s) - s )) $(grep -c '^VIOLATION' $VD/$LABEL-$P.log) violations: $(grep '^violation' $VD/$LABEL-$P.log | grep -v 'KNOWN' | head -2 | cut -c1-300)"
done
cd $WT && git checkout -q -- .
