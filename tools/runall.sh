#!/bin/sh
# usage: tools/runall.sh [quick|thorough] [ids...]  -- runs the registered checks one after another
TIER=${1:-quick}; shift
HERE=$(cd "$(dirname "$0")/.." && pwd); cd "$HERE"
IDS="$@"; [ -z "$IDS" ] && IDS=$(jq -r '.checks[].property_id' MANIFEST.json)
mkdir -p /tmp/runall
for p in $IDS; do
  s=$(date +%s)
  bin/check $p $TIER > /tmp/runall/$p.log 2>&1; rc=$?
  e=$(date +%s)
  echo "$p exit=$rc violations=$(grep -c '^VIOLATION' /tmp/runall/$p.log) known=$(grep -c '^KNOWN-FINDING' /tmp/runall/$p.log) secs=$((e-s)) :: $(tail -1 /tmp/runall/$p.log | cut -c1-160)"
done
