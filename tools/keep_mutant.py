#!/usr/bin/env python3
"""Copies a confirmed breaking change from /tmp/mut-out/<ID>/<x>/ into /verif/seeded/<ID>-<x>/ and writes meta.json.
usage: keep_mutant.py <ID> <x> '<needs>' '<caught_by>' ['<note>']"""
import json, os, re, shutil, sys
ID, x, needs, caught = sys.argv[1:5]
note = sys.argv[5] if len(sys.argv) > 5 else ""
src = f"/tmp/mut-out/{ID}/{x}"
dst = f"/verif/seeded/{ID}-{x}"
os.makedirs(dst, exist_ok=True)
shutil.copy(f"{src}/patch.diff", f"{dst}/patch.diff")
shutil.copy(f"{src}/demo.rs", f"{dst}/demo.rs")
if os.path.exists(f"{src}/notes.md"):
    shutil.copy(f"{src}/notes.md", f"{dst}/notes.md")
conf = open(f"{src}/confirm.log").read() if os.path.exists(f"{src}/confirm.log") else ""
def grab(after):
    i = conf.find(after)
    if i < 0: return None
    m = re.search(r"test result: (\w+)\. (\d+) passed; (\d+) failed", conf[i:])
    return {"result": m.group(1), "passed": int(m.group(2)), "failed": int(m.group(3))} if m else None
suite = re.search(r"Summary \[[^\]]*\] (\d+) tests run: (\d+) passed[^,]*(?:, (\d+) failed)?", conf)
head = re.search(r"== \S+ at (\w+)", conf)
meta = {
    "property": ID,
    "variant": x,
    "breaks": open(f"{src}/notes.md").read().split("\n")[0].lstrip("# ").strip() if os.path.exists(f"{src}/notes.md") else "",
    "needs_to_manifest": needs,
    "confirmed_in_scratch_worktree": {
        "repo_head": head.group(1) if head else None,
        "command": f"tools/confirm_mutant.sh {ID} {x}  (git worktree of /repo HEAD under /tmp; cargo test --test mut_demo_{ID}_{x} without and with the patch; cargo nextest run --workspace with the patch)",
        "demo_without_patch": grab("-- demo on clean tree"),
        "demo_with_patch": grab("-- demo with patch"),
        "suite_with_patch": {"run": int(suite.group(1)), "passed": int(suite.group(2)), "failed": int(suite.group(3) or 0)} if suite else None,
    },
    "caught_by": caught,
    "note": note,
}
json.dump(meta, open(f"{dst}/meta.json", "w"), indent=1)
print(dst, meta["confirmed_in_scratch_worktree"]["demo_with_patch"], meta["confirmed_in_scratch_worktree"]["suite_with_patch"])
