#!/bin/sh
# usage: confirm_mutant.sh <property id> <a|b>   (reads /tmp/mut-out/<id>/<x>/{patch.diff,demo.rs})
# Confirms in a scratch worktree: patch applies, compiles, the existing suite passes with it,
# the demonstration fails with it and passes without it. Writes /tmp/mut-out/<id>/<x>/confirm.log
ID=$1; X=$2
SRC=/tmp/mut-out/$ID/$X
WT=${WT:-/tmp/verify-wt}
LOG=$SRC/confirm.log
export CARGO_NET_OFFLINE=true
[ -d $WT ] || git -C /repo worktree add --detach $WT HEAD >/dev/null 2>&1
cd $WT || exit 2
git checkout -q --detach $(git -C /repo rev-parse HEAD) 2>/dev/null
git checkout -q -- . ; rm -f tests/mut_demo_*.rs
DEMO=tests/mut_demo_${ID}_${X}.rs
{
echo "== $ID/$X at $(git rev-parse --short HEAD)"
cp $SRC/demo.rs $DEMO
echo "-- demo on clean tree"
cargo test --offline -j 6 --test mut_demo_${ID}_${X} 2>&1 | grep -E "^test |test result|error" | head -20
if ! git apply --whitespace=nowarn $SRC/patch.diff 2>&1; then echo "PATCH DOES NOT APPLY"; git checkout -q -- .; rm -f $DEMO; exit 1; fi
echo "-- demo with patch"
cargo test --offline -j 6 --test mut_demo_${ID}_${X} 2>&1 | grep -E "^test |test result|error" | head -20
rm -f $DEMO
echo "-- suite with patch"
cargo nextest run --workspace --no-fail-fast --test-threads 6 --offline --cargo-quiet 2>&1 | grep -E "Summary|FAIL|error" | head -20
git checkout -q -- .
echo "== done"
} > $LOG 2>&1
