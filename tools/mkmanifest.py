#!/usr/bin/env python3-vt
"""Regenerates /verif/MANIFEST.json from the table below (and validates it against the schema)."""
import json, os, sys

V = "/verif"
BASELINE = "cd /repo && cargo nextest run --workspace --no-fail-fast --tool-config-file pb:/w/lib/nextest.toml --profile pb --test-threads 8 --offline"

# id -> (engine, level, technique, text, note, design_ref)
CLAIMED = {
 "C01": ("memsim", "exploration", "deterministic simulation: seeded histories vs reference model, clean and dirty restarts",
         "Seeded random operation histories (put/update/delete/commit/drop/open/process-death) run against the real Memvid under the syscall recorder next to a small reference model; every commit, reopen and read-only open is compared frame by frame and byte by byte. Exploration: evidence over the explored seeds, not proof.",
         "Trusted: the reference model (sim/src/model.rs), the public preview_chunks for the chunk split, tmpfs as page-cache view.", "DESIGN.md section 7 C01"),
 "C02": ("memsim", "fault_enumeration", "deterministic simulation: process-crash images derived from the recorded syscall log, reopened with the real code",
         "One recorded execution yields its crash points: after every mutating syscall (sampled in quick, all in thorough for small logs) the surviving directory is rebuilt, opened with the real Memvid::open and compared with the states the history allows (acknowledged, optionally the in-flight operation).",
         "Process-crash model: completed syscalls persist. Known findings (in-place recovery / WAL growth / vacuum, multi-record puts) are listed in KNOWN_FINDINGS.jsonl by call-site signature.", "DESIGN.md section 7 C02"),
 "C03": ("memsim", "fault_enumeration", "deterministic simulation: power-loss images (lost/torn un-synced writes, lost renames) from the recorded syscall log",
         "Same recorded executions as C02 under the power-loss model: per inode the content at its last fsync plus a sampled subset of later writes, one optionally torn, un-synced renames lost; the reopened file must open and contain everything acknowledged.",
         "Abstract persistence model (see DESIGN.md 2.3); a new file's directory entry counts as durable once the file was fsynced (weak reading).", "DESIGN.md section 7 C03"),
 "C04": ("memsim", "fault_enumeration", "deterministic simulation: nested crashes inside Memvid::open's recovery, compared with the uninterrupted recovery",
         "Crash images that need recovery are opened under the recorder; the recovery's own syscall log is cut at sampled points (nested up to depth 3); the final uninterrupted open must show exactly what a single uninterrupted recovery shows, and opening a recovered file again must change nothing.",
         "Process-crash model inside recovery (recovery runs on a staged copy since the repair 1abdb16).", "DESIGN.md section 7 C04"),
 "C05": ("walsim", "exploration", "deterministic simulation: seeded EmbeddedWal histories vs vector-of-records model, head steering, power-loss reopen",
         "The public EmbeddedWal API is driven directly (append, checkpoint, stats, scans, reopen from header, read-only view, power-loss reopen from the recorded syscall log) over regions of 96..4096 bytes and 64 KiB with payload sizes steered to the ring's edge cases; every scan is compared with a vector-of-records model. ~10^5 short runs per quick batch.",
         "Sampling, not the exhaustive enumeration the property's quantifier mentions (that is model checking). The caller persists the header at each checkpoint, as Memvid does.", "DESIGN.md section 7 C05"),
}

def _hist(pid, what, ref=None):
    CLAIMED[pid] = ("memsim", "exploration", "deterministic simulation: seeded histories with restarts, process death, doctor and vacuum vs reference model",
        what + " Checked on the live handle, after commit, after clean and dirty restarts, on read-only handles, after doctor and vacuum. Exploration: evidence over the explored seeds, not proof.",
        "Trusted: the reference model and, where stated in the evidence file, ground truth re-derived from the real handle's own frame_text_by_id.", ref or f"DESIGN.md section 7 {pid}")

_hist("C06", "Identity oracles on C01-style histories extended with vacuum and doctor: next_frame_id() before each put equals the id the document receives, ids are dense and in put order, and (uri, payload, role) of every id stay the same across commit, reopen, delete, update, vacuum, doctor and crash recovery.")
_hist("C07", "Content oracles on the same histories over payload classes empty/tiny/binary/zero-filled/compressible/invalid UTF-8/text around the 2400-character threshold/structured/multi-byte: canonical payload and blob reader equal the bytes given, blake3 of the stored range equals Frame.checksum, chunked documents equal the concatenation of their chunk frames and (unstructured text) normalize_text of the input.")
_hist("C08", "Corpora with updates and deletes addressed by uri, then the read battery: no search hit, timeline entry or vector hit names a frame the model has as deleted or superseded; status, supersedes links and inherited fields are compared frame by frame.")
_hist("C09", "Single-word queries over corpora with planted words (each planted once per document, so that top_k slots are not used up by several slices of one frame): every active frame whose own text contains the word must be among the hits when their number is at most top_k, with the sketch pre-filter on and off.")
_hist("C10", "Random boolean queries (AND/OR/NOT, phrases, tag/track terms, uri/scope filters) printed to text; every hit must name an existing active frame whose own text and fields satisfy a reference evaluator with the substring semantics the property states, ranks 1..n, at most top_k hits, hit text equal to the chunk content at the hit range inside the chunk range; also issued while records are pending.")
_hist("C11", "The same batteries with random as_of_frame / as_of_ts: no hit beyond the cut-off, and every filtered hit also appears in the unfiltered search.")
_hist("C13", "Embedding sets (dimension 1..24, duplicates, zeros, large and subnormal magnitudes) with random queries and k: min(k,m) hits, non-decreasing distance, no omitted frame strictly closer than the last hit (f64 brute force), wrong dimension rejected, identical answers on live, reopened and read-only handles.")
_hist("C14", "After every commit/reopen/doctor the set of frames reachable through search_vec(k = everything) and frame_embedding equals the model's active embedded set with the embeddings given; stats.vector_count agrees. Default feature configuration only (the hnsw_bench build is not exercised).")
_hist("C15", "Random explicit timestamps (equal, negative, extreme), extracted-image frames, deletes and updates, random since/until/limit/reverse: the timeline equals the model's list ordered by (timestamp, id), reverse is the exact reverse, limit a prefix.")
_hist("C16", "For every query of the battery the pages obtained by following next_cursor (page size 1..10) are compared with one large request: same (frame, range) sequence, no repeats, constant total_hits. Known findings cover the cases where a frame holds the query word several times (slice stream depends on top_k).")
_hist("C28", "Differential: every query of the battery is issued on the live handle, after reopen, on a read-only handle and after a doctor rebuild; answers on the same committed state must be identical; hits returned while records are pending must contain the query.")

_hist("C18", "Read-only sessions under the syscall monitor: open_read_only, model comparison against the last committed state (records still pending in the log after a process death must not show), searches, timelines, vector queries, verify, drop; no write-class syscall may be issued on the memory's directory and the file hash is the same when the handle is dropped as when it was opened.")
_hist("C19", "A directory listing after every API return (successful or failed) over histories with vacuum and doctor, with injected ENOSPC/EIO/EMFILE/short writes/EINTR in two thirds of the runs; create/open must refuse to run while a planted forbidden sidecar (-wal/-shm/-lock/-journal and dot-prefixed variants) exists.")
_hist("C24", "Tickets granting a capacity a few bytes to kilobytes above the current payload end, then whole and chunked puts with and without commits and restarts; after every call each frame's payload end is compared with the granted capacity, an incompressible payload that cannot fit must be refused, and refused puts are monitored for write-class syscalls.")
_hist("C25", "Ticket sequences (fresh, stale, equal, negative) interleaved with commits, clean restarts and process death: a ticket is accepted only if its number exceeds every number accepted before (model survives restart); rejected tickets issue no write-class syscall and leave the ticket state unchanged; signed tickets with random signatures, wrong memory ids or on unbound memories are rejected; the one authentic signed ticket available offline (the vector pinned in the crate's own signature tests) is accepted on the memory it names when its number is fresh, rejected on any other or unbound memory, and rejected with any single field changed.")
_hist("C42", "Histories with deletes and updates (including payload-reusing updates) followed by vacuum, directly or through doctor: frame table and exact contents equal the model afterwards, verify right after the vacuum reports Passed, and the file reopens.")


CLAIMED["C12"] = ("memsim", "exploration", "deterministic simulation: seeded ACL corpora and caller contexts over every retrieval entry point, on pending, committed, recovered, read-only and doctored states, vs a reference policy evaluator",
    "Corpora whose documents carry random ACL metadata (absent, valid public/restricted for two tenants, malformed, JSON-quoted, padded, mixed case), re-labelled by updates, queried through search, vec_search_with_embedding_acl, search_adaptive_acl and ask with random caller contexts: under Enforce no hit, context fragment or citation may name a frame that a reference evaluator of the documented policy denies (judged on the metadata the file stores and on the metadata given at put time), the context text must not carry a denied document's unique token, Enforce without tenant must fail, Audit must answer exactly like no context.",
    "The property has no fault or schedule dimension of its own; it is judged over simulator-reached states (records pending, recovery after process death, read-only handles, doctor). Trusted: the reference evaluator in sim/src/acl.rs.", "DESIGN.md section 7 C12")
CLAIMED["C17"] = ("memsim", "exploration", "deterministic simulation: a second writer / doctor / raw flock probe injected after random steps of a first writer's seeded history (API-call granularity, virtual lock timeout)",
    "C01-style histories of a first writer with a second actor inserted after random steps: a writable Memvid::open of the same path through an independent open file description, Memvid::doctor on the path, or flock(LOCK_EX|LOCK_NB) on a fresh descriptor. Every attempt made while the first writable handle is alive must fail; when one succeeds both writers commit and the reopened file is checked for a lost commit. The lock's 200 x 50 ms retry loop runs on the virtual clock.",
    "A second process is simulated by a second open file description in the same process (flock conflicts between open file descriptions exactly as between processes). Interleaving is at API-call granularity. Known finding: the lock stays on the pre-commit inode (KNOWN_FINDINGS.jsonl).", "DESIGN.md section 7 C17")
CLAIMED["C20"] = ("memsim", "fault_enumeration", "deterministic simulation: medium faults at rest (bit flips, zeroed/garbage ranges, truncation, lost/misdirected writes, splices) addressed by structure, then open + read-back vs the pristine observation",
    "A seeded history produces a committed, closed file; 40 (quick) / 300 (thorough) faults per file are applied at rest, addressed by structure (header fields, WAL, each payload, index region, TOC, footer). Each faulted copy is opened read-only and writable and read frame by frame: every read must fail or return the committed fields, payload and embedding; verify(deep) must not report Passed for a file from which a read returns something else.",
    "Sampled by seed, densely per structure; the exhaustive single-byte enumeration the property text mentions is not performed. Lost writes are rebuilt from the recorded syscall log.", "DESIGN.md section 7 C20")
CLAIMED["C21"] = ("memsim", "fault_enumeration", "deterministic simulation: doctor on files damaged at rest in the structures it claims to repair (header pointer, TOC checksum, footer, index region), all option combinations, dry run under the syscall monitor",
    "The same faulted images restricted to repairable structures are given to doctor with random options: a dry run must not change the file; when doctor reports success the file must open, every committed frame must read back unchanged, verify(deep) must pass and a second doctor run with default options must report Clean. Doctor and vacuum-through-doctor also run inside the C06/C07/C42 histories (crash-left files with pending records).",
    "Faults sampled by seed. The committed content is what a read-only open of the pristine file returns.", "DESIGN.md section 7 C21")
CLAIMED["C22"] = ("memsim", "fault_enumeration", "deterministic simulation: open / open_read_only / verify / doctor_plan / doctor / read battery on simulator-produced damaged files under catch_unwind, syscall budget and watchdog",
    "Every faulted image (bit flips, zeroing, garbage, truncation, lost and misdirected writes, splices) is given to verify, open_read_only, open, a read battery (stats, timeline, search, frame text, blob readers, vector search), doctor_plan and doctor; each call must return Ok or Err: a panic (caught per call) or a child that exceeds the watchdog is a violation.",
    "Inputs are images reachable by simulated faults on real files, not arbitrary byte strings. The wall-clock watchdog (400 s per run) is a backstop only.", "DESIGN.md section 7 C22")
CLAIMED["C23"] = ("memsim", "exploration", "deterministic simulation: the same explicit history executed in fresh processes under different clocks, entropy streams, paths and short-I/O patterns; call outcomes, logical observation and file bytes compared",
    "Each seeded history (explicit timestamps) runs four times, each in a fresh forked process on a fresh path: base environment; different clock origin/skew/jumps; different entropy (segment UUIDs, staging names, hash seeds); different path plus injected short writes and short reads. Call outcomes and the logical observation must be identical; file bytes are compared region by region and differences are attributed to the structure they fall in.",
    "Known findings: random Tantivy segment names and the wall-clock tombstone timestamp reach the file bytes (KNOWN_FINDINGS.jsonl). Tantivy's own threads are not scheduled by the simulator; their entropy is keyed by thread lineage.", "DESIGN.md section 7 C23")
CLAIMED["C26"] = ("memsim", "exploration", "deterministic simulation: seeded histories of card-producing documents, instant indexing and enrichment requests with commits, restarts and process death; every derived record checked against the frame it names",
    "Documents whose text the rules engine turns into memory cards (values unique per document) are put with and without instant indexing and background-enrichment requests, mixed with whole and chunked documents, commits, clean restarts and process death so that log sequence numbers and frame ids diverge. At every commit, reopen and read-only open each extracted card's source_frame_id must name a frame whose text contains the card's value; on read-only handles the enrichment queue is drained and every entry must name a document that asked for enrichment.",
    "Trusted: frame_text_by_id for the text of a frame. Queue completeness is not asserted (entries live in the TOC, not in the log).", "DESIGN.md section 7 C26")
CLAIMED["C27"] = ("memsim", "exploration", "deterministic simulation: seeded put_memory_card / mesh / commit / restart / process-death histories vs a reference model, with temporal queries at random times",
    "Random cards (entities, slots, kinds, event/document dates with ties and gaps, explicit created_at, version relations incl. retractions) and logic-mesh nodes/edges are added between documents, commits, clean restarts and process death. get_memory_at_time / get_current_memory at random times are compared with a reference (newest non-retracted effective time not after t; never a retraction; never from the future; equal to current at or beyond the latest card). At every commit, reopen, read-only open and crash image the caller-made card set and the mesh must equal the model's.",
    "Cards and mesh entries are not logged: they become durable at the next commit; the model loses un-committed ones on process death. Ties in effective time: any tied card is accepted.", "DESIGN.md section 7 C27")
CLAIMED["C31"] = ("memsim", "fault_enumeration", "deterministic simulation: find_last_valid_footer vs a naive reference scan on every faulted image the simulator produces (footer-targeted faults included)",
    "On every medium-fault image (flips and garbage in footer fields, stale footers left by truncation and splices, misdirected copies of footers) the public find_last_valid_footer is compared with a naive scan that returns the last offset at which magic, length and hash of a footer are all consistent.",
    "Domain: images reachable by simulated faults from real files, not all byte strings.", "DESIGN.md section 7 C31")
CLAIMED["C40"] = ("memsim", "exploration", "deterministic simulation: the same seeded document set ingested through the bulk paths and through plain puts under one simulated environment; differential comparison live and after reopen",
    "A seeded document set is ingested twice into fresh files: plain puts + commit, and begin_batch/end_batch with random options (skip_sync, compression level, disable_auto_checkpoint, pre-sized log) and/or several commit_skip_indexes + finalize_indexes. Frames, contents, metadata, embeddings, timeline, searches (sketch on/off) and vector searches are compared on the live handles and after reopening. The durability clause of skip_sync is decided by C03's power-loss images over histories that contain batches.",
    "Physical placement (offsets, stored sizes) is excluded: batch options change the compression level on purpose. Known finding: no sketch entries on the skip-index path (KNOWN_FINDINGS.jsonl).", "DESIGN.md section 7 C40")

CLAIMED["C41"] = ("shuttlesim", "exploration", "deterministic simulation: the real enrichment worker thread on a real Memvid under shuttle's seeded random and PCT schedulers, workload drawn from the schedule's own PRNG, failures persisted as replayable schedule files",
    "memvid-core is compiled with --cfg memvid_verif_shuttle, which takes std::sync and std::thread of the worker modules from shuttle. Each schedule creates a memory, starts start_enrichment_worker, runs a random foreground history (puts that ask for enrichment, plain puts, commits, searches), then (random scheduler) waits yielding until the queue is empty, or (PCT) stops at once; stop_and_wait must return; after a final commit and after reopening every acknowledged document is present with its bytes, never-queued documents are unchanged (Enriched), every queued document is Enriched (random) or still queued (PCT), and frames_processed equals the number of documents enriched (exactly once). Deadlocks and schedules that exceed the step bound are reported by shuttle with the schedule.",
    "Liveness is judged only under the random scheduler (fair in probability); PCT is unfair by design. Tantivy's own threads are real and not scheduled. sleep is modelled as a yield in the seam.", "DESIGN.md section 7 C41")

CLAIMED["C29"] = ("memsim", "fault_enumeration", "deterministic simulation: lock / unlock of simulator-produced memories under the recorder, capsules damaged at rest by structure, crash images cut from the unlock's syscall log, injected I/O errors",
    "A seeded history produces a committed .mv2 file of 70 KiB .. 2.5 MiB (one, two or three capsule chunks). lock + unlock must reproduce it byte for byte (a third of the runs under injected short reads/writes). Damaged copies of the capsule, addressed by structure (header fields, chunk length prefixes, ciphertext, tags; truncation at and around every chunk boundary; dropped, duplicated, moved chunks), must make unlock fail and leave the output path as it was; the unlock's own syscall log is cut at sampled points (process crash) and the output path must hold f or nothing; one injected ENOSPC/EIO during unlock must not leave a different plaintext.",
    "Real Argon2id / AES-GCM, nothing stubbed. Known findings: unauthenticated header bytes (nonce counter bytes, reserved) are accepted with an exact plaintext (KNOWN_FINDINGS.jsonl).", "DESIGN.md section 7 C29")

NA = {
 "C30": "pure function of an in-memory value or byte slice (header/footer/TOC/time-index codecs): no schedule, clock, fault or history for a simulator to control",
 "C32": "pure function of a query string (and crate-private): no simulated dimension",
 "C33": "pure function of a string and a limit",
 "C34": "pure function of a string",
 "C35": "pure function of a string and ranges (crate-private)",
 "C36": "pure function of a string",
 "C37": "pure function of a score list and a configuration",
 "C38": "pure function of two slices; the configuration is a compile-time feature, not a run-time schedule or fault",
 "C39": "pure functions; the file round trip is a codec over Read/Write with no fault behaviour of its own",
}

def main():
    props = [json.loads(l) for l in open(f"{V}/properties.jsonl")]
    ids = [p["id"] for p in props]
    checks = []
    for pid in ids:
        if pid not in CLAIMED:
            continue
        eng, level, tech, text, note, ref = CLAIMED[pid]
        checks.append({
            "property_id": pid,
            "quick_cmd": f"bin/check {pid} quick",
            "thorough_cmd": f"bin/check {pid} thorough",
            "evidence_file": f"/verif/evidence/{pid}.json",
            "replay_cmd_template": "bin/replay {path}",
            "engine": eng,
            "level_claimed": {"category": level, "text": text, "design_ref": ref},
            "level_note": note,
            "technique": tech,
        })
    na = []
    for pid in ids:
        if pid in CLAIMED:
            continue
        reason = NA.get(pid, "claimed in DESIGN.md but its check is not built yet; not claimed until it is")
        na.append({"property_id": pid, "reason": reason})
    hooks_commits = []
    hf = f"{V}/tools/hook_commits.txt"
    if os.path.exists(hf):
        hooks_commits = [l.strip() for l in open(hf) if l.strip()]
    m = {
        "version": 1,
        "setup_cmd": "bin/setup",
        "hooks": {
            "guard": "--cfg memvid_verif_shuttle",
            "enable": "engine 3 (C41) only: shuttlesim/.cargo/config.toml sets rustflags --cfg memvid_verif_shuttle and bin/mkshadow generates a shadow manifest of /repo/Cargo.toml that adds the shuttle dependency; engines 1/2 build /repo unmodified with no cfg",
            "baseline_off_cmd": BASELINE,
            "source_commits": hooks_commits,
            "add_only": True,
        },
        "engines": [
            {"name": "memsim", "path": "/verif/sim", "serves_properties": [c["property_id"] for c in checks if c["engine"] == "memsim"],
             "kind_free_text": "deterministic simulator: libc interposition inside the binary (syscall recorder, fault injection, virtual clock, seeded entropy), reference model, crash-image builder, shrinker, replayer; one simulated world per forked process"},
            {"name": "walsim", "path": "/verif/sim", "serves_properties": [c["property_id"] for c in checks if c["engine"] == "walsim"],
             "kind_free_text": "same binary: drives the public EmbeddedWal API on a file in the simulated directory against a vector-of-records model"},
            {"name": "shuttlesim", "path": "/verif/shuttlesim", "serves_properties": [c["property_id"] for c in checks if c["engine"] == "shuttlesim"],
             "kind_free_text": "shuttle-scheduled execution of the real enrichment worker (memvid-core built with --cfg memvid_verif_shuttle through a generated shadow manifest that adds the shuttle dependency)"},
        ],
        "checks": checks,
        "not_applicable": na,
        "notes": "Technique family: deterministic simulation with fault injection. VERIF_SEED selects the seed range; exit 2 = harness error. Known findings: /verif/KNOWN_FINDINGS.jsonl.",
    }
    json.dump(m, open(f"{V}/MANIFEST.json", "w"), indent=1)
    try:
        import jsonschema
        jsonschema.validate(m, json.load(open("/root/.vp/MANIFEST.schema.json")))
        print("MANIFEST.json valid;", len(checks), "checks,", len(na), "not claimed")
    except ImportError:
        print("jsonschema not available; written without validation")

if __name__ == "__main__":
    main()
