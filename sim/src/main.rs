#![allow(dead_code, unused_imports, deprecated, clippy::too_many_arguments)]
mod acl;
mod bulk;
mod capsule;
mod cards;
mod checks;
mod crash;
mod coord;
mod corrupt;
mod determinism;
mod disk;
mod gen;
mod model;
mod ops;
mod oracle;
mod reads;
mod rng;
mod runner;
mod shim;
mod shrink;
mod walsim;
mod world;
mod evidence;

use checks::Tier;
use std::time::Duration;

fn usage() -> ! {
    eprintln!("usage: memsim check --property <id> [--tier quick|thorough] | replay <file> | run-seed <id> <seed> [tier] | selftest-determinism [n]");
    std::process::exit(2)
}

fn main() {
    let args: Vec<String> = std::env::args().collect();
    if args.len() < 2 {
        usage();
    }
    match args[1].as_str() {
        "check" => {
            let mut prop = String::new();
            let mut tier = match std::env::var("VERIF_TIER").as_deref() {
                Ok("thorough") => Tier::Thorough,
                _ => Tier::Quick,
            };
            let mut i = 2;
            while i < args.len() {
                match args[i].as_str() {
                    "--property" => {
                        prop = args.get(i + 1).cloned().unwrap_or_default();
                        i += 1;
                    }
                    "--tier" => {
                        tier = if args.get(i + 1).map(|s| s.as_str()) == Some("thorough") { Tier::Thorough } else { Tier::Quick };
                        i += 1;
                    }
                    _ => usage(),
                }
                i += 1;
            }
            let Some(def) = checks::find(&prop) else {
                eprintln!("unknown property {prop}");
                std::process::exit(2)
            };
            let seed: u64 = std::env::var("VERIF_SEED").ok().and_then(|s| s.parse().ok()).unwrap_or(20260921);
            println!("memsim: property={} tier={:?} VERIF_SEED={seed} jobs={}", def.id, tier, coord::nproc());
            std::process::exit(evidence::check_main(&def, tier, seed));
        }
        "replay" => {
            let Some(path) = args.get(2) else { usage() };
            std::process::exit(evidence::replay_main(path));
        }
        "run-seed" => {
            let (Some(id), Some(seed)) = (args.get(2), args.get(3).and_then(|s| s.parse::<u64>().ok())) else { usage() };
            let tier = if args.get(4).map(|s| s.as_str()) == Some("thorough") { Tier::Thorough } else { Tier::Quick };
            let def = checks::find(id).unwrap_or_else(|| usage());
            let scn = (def.gen)(seed, tier);
            let res = coord::eval_many(&def, &[scn.clone()], Duration::from_secs(600));
            println!("{}", serde_json::to_string_pretty(&scn.ops).unwrap());
            match &res[0] {
                Some(r) => {
                    let mut r = r.clone();
                    r.repro = None;
                    r.states.clear();
                    println!("{}", serde_json::to_string_pretty(&r).unwrap())
                }
                None => println!("child died"),
            }
        }
        "show-log" => {
            // triage helper: run the history of a replay file and print the syscall log around its cut
            let Some(path) = args.get(2) else { usage() };
            let rf: evidence::ReplayFile = serde_json::from_str(&std::fs::read_to_string(path).unwrap()).unwrap();
            let span: usize = args.get(3).and_then(|s| s.parse().ok()).unwrap_or(25);
            let pid = unsafe { libc::fork() };
            if pid == 0 {
                let root = runner::scratch_root();
                let _ = std::fs::create_dir_all(format!("{root}/tmp"));
                std::env::set_var("TMPDIR", format!("{root}/tmp"));
                runner::setup_env(&rf.scenario);
                let mut w = world::World::new(&root, &rf.scenario);
                w.run(&rf.scenario.ops);
                w.finish_segment();
                shim::env_stop();
                shim::set_sim_thread(false);
                if let Some(cp) = &rf.scenario.post {
                    let cut = match &cp.spec {
                        disk::CrashSpec::Process { cut, .. } => *cut,
                        disk::CrashSpec::Power { cut, .. } => *cut,
                    };
                    let seg = &w.segs[cp.seg];
                    let lo = cut.saturating_sub(span);
                    let hi = (cut + span / 3).min(seg.log.len());
                    for (i, o) in seg.log.iter().enumerate().take(hi).skip(lo) {
                        let mark = if i == cut { "  <== CUT (ops before this line applied)" } else { "" };
                        println!("{i:5} {:?} ino={} off={} len={} {} {}{}", o.kind, o.ino, o.off, o.len, o.name, o.name2, mark);
                    }
                    println!("post = {:?}", cp);
                }
                let _ = std::fs::remove_dir_all(&root);
                unsafe { libc::_exit(0) };
            }
            let mut st = 0;
            unsafe { libc::waitpid(pid, &mut st, 0) };
        }
        "selftest-determinism" => {
            let n: u64 = args.get(2).and_then(|s| s.parse().ok()).unwrap_or(200);
            let id = args.get(3).cloned().unwrap_or_else(|| "C01".to_string());
            std::process::exit(evidence::selftest_determinism(&id, n));
        }
        _ => usage(),
    }
}
