//! Medium faults at rest on committed, closed files (C20, C21, C22, C31).
//! Because the simulator saw every write, faults are addressed by structure (header fields,
//! WAL, each payload, index region, TOC, footer), not only by raw offset.
use crate::crash::try_open;
use crate::disk::{self, FsImage};
use crate::ops::*;
use crate::rng::Rng;
use crate::runner::{self, RunResult, ViolationRec};
use crate::shim::{self, Kind};
use crate::world::{World, FILE};
use memvid_core::{DoctorOptions, DoctorStatus, Memvid, VerificationStatus};
use serde::{Deserialize, Serialize};
use std::collections::BTreeMap;
use std::panic::{catch_unwind, AssertUnwindSafe};

#[derive(Serialize, Deserialize, Clone, Debug, PartialEq)]
pub enum Medium {
    Flip { off: u64, mask: u8 },
    Zero { off: u64, len: u64 },
    Garbage { off: u64, len: u64, seed: u64 },
    Truncate { len: u64 },
    /// an earlier write never reached the medium (log index in the last segment)
    LostWrite { idx: usize },
    /// bytes [src, src+len) copied over [dst, dst+len) (misdirected / stale write)
    Misdirect { src: u64, dst: u64, len: u64 },
    /// the file is replaced by `head` bytes of itself followed by the tail of itself from `tail_from`
    Splice { head: u64, tail_from: u64 },
    /// a little-endian 64-bit field overwritten with a structurally interesting value (the file
    /// length, the field's own position, a neighbouring boundary, 0, a huge number)
    SetU64 { off: u64, val: u64 },
    /// the start of a later commit's trailer written at `at` and torn: the 8-byte footer magic
    /// followed by `len` garbage bytes (the file grows if `at + 8 + len` lies beyond its end)
    TornTrailer { at: u64, len: u64, seed: u64 },
}

#[derive(Clone, Debug)]
pub struct Region {
    pub name: &'static str,
    pub off: u64,
    pub len: u64,
}

fn apply(bytes: &[u8], m: &Medium) -> Vec<u8> {
    let mut b = bytes.to_vec();
    let n = b.len() as u64;
    match m {
        Medium::Flip { off, mask } => {
            if *off < n {
                b[*off as usize] ^= *mask;
            }
        }
        Medium::Zero { off, len } => {
            let s = (*off).min(n) as usize;
            let e = (*off + *len).min(n) as usize;
            for x in &mut b[s..e] {
                *x = 0;
            }
        }
        Medium::Garbage { off, len, seed } => {
            let mut r = Rng::new(*seed, "garbage");
            let s = (*off).min(n) as usize;
            let e = (*off + *len).min(n) as usize;
            for x in &mut b[s..e] {
                *x = r.below(256) as u8;
            }
        }
        Medium::Truncate { len } => b.truncate((*len).min(n) as usize),
        Medium::LostWrite { .. } => {}
        Medium::Misdirect { src, dst, len } => {
            let s = (*src).min(n) as usize;
            let l = (*len).min(n - (*src).min(n)).min(n - (*dst).min(n)) as usize;
            let d = (*dst).min(n) as usize;
            let chunk = b[s..s + l].to_vec();
            b[d..d + l].copy_from_slice(&chunk);
        }
        Medium::SetU64 { off, val } => {
            if *off + 8 <= n {
                b[*off as usize..*off as usize + 8].copy_from_slice(&val.to_le_bytes());
            }
        }
        Medium::TornTrailer { at, len, seed } => {
            let mut r = Rng::new(*seed, "torn-trailer");
            let at = (*at).min(n) as usize;
            let mut rec = b"MV2FOOT!".to_vec();
            rec.extend((0..*len).map(|_| r.below(256) as u8));
            if b.len() < at + rec.len() {
                b.resize(at + rec.len(), 0);
            }
            b[at..at + rec.len()].copy_from_slice(&rec);
        }
        Medium::Splice { head, tail_from } => {
            let h = (*head).min(n) as usize;
            let t = (*tail_from).min(n) as usize;
            let mut v = b[..h].to_vec();
            v.extend_from_slice(&b[t..]);
            b = v;
        }
    }
    b
}

/// Per-frame observation: (fields or ERR, payload hash or ERR, embedding hash or "-")
pub fn observe_reads(mem: &mut Memvid, n_frames: u64) -> Vec<(String, String, String)> {
    observe_reads_ext(mem, n_frames, false)
}

/// `old_versions`: also read the payload of superseded / deleted frames by id (their bytes stay in
/// the file until a vacuum, and reading an old version is an ordinary public call).
pub fn observe_reads_ext(mem: &mut Memvid, n_frames: u64, old_versions: bool) -> Vec<(String, String, String)> {
    let mut v = Vec::new();
    for id in 0..n_frames {
        let (fields, active) = match mem.frame_by_id(id) {
            Ok(f) => (format!("{:?}|{:?}|{:?}|{:?}|{:?}|{:?}|{}|{:?}|{:?}", f.uri, f.status, f.role, f.parent_id, f.supersedes, f.superseded_by, f.timestamp, f.tags, f.title), f.status == memvid_core::FrameStatus::Active),
            Err(_) => ("ERR".to_string(), false),
        };
        let payload = if active || (old_versions && fields != "ERR") {
            match mem.frame_canonical_payload(id) {
                Ok(b) => blake3::hash(&b).to_hex()[..16].to_string(),
                Err(_) => "ERR".to_string(),
            }
        } else {
            "-".to_string()
        };
        let emb = match mem.frame_embedding(id) {
            Ok(Some(e)) => blake3::hash(&e.iter().flat_map(|x| x.to_le_bytes()).collect::<Vec<u8>>()).to_hex()[..12].to_string(),
            Ok(None) => "-".to_string(),
            Err(_) => "ERR".to_string(),
        };
        v.push((fields, payload, emb));
    }
    v
}

fn naive_footer(bytes: &[u8]) -> Option<(usize, usize)> {
    const MAGIC: &[u8; 8] = b"MV2FOOT!";
    const FS: usize = 56;
    if bytes.len() < FS {
        return None;
    }
    let mut pos = bytes.len() - FS;
    loop {
        if &bytes[pos..pos + 8] == MAGIC {
            let toc_len = u64::from_le_bytes(bytes[pos + 8..pos + 16].try_into().unwrap());
            if toc_len > 0 && toc_len as usize <= pos {
                let toc = &bytes[pos - toc_len as usize..pos];
                if blake3::hash(toc).as_bytes()[..] == bytes[pos + 16..pos + 48] {
                    return Some((pos, pos - toc_len as usize));
                }
            }
        }
        if pos == 0 {
            return None;
        }
        pos -= 1;
    }
}

pub fn regions(w: &World, bytes: &[u8], frames: &[(u64, u64)]) -> Vec<Region> {
    let _ = w;
    regions_of(bytes, frames)
}

pub fn regions_of(bytes: &[u8], frames: &[(u64, u64)]) -> Vec<Region> {
    let n = bytes.len() as u64;
    let mut v = Vec::new();
    let wal_size = if bytes.len() >= 32 { u64::from_le_bytes(bytes[24..32].try_into().unwrap()).min(n) } else { 65536 };
    let footer_off = if bytes.len() >= 16 { u64::from_le_bytes(bytes[8..16].try_into().unwrap()) } else { 0 };
    v.push(Region { name: "header.magic+version", off: 0, len: 8 });
    v.push(Region { name: "header.footer_offset", off: 8, len: 8 });
    v.push(Region { name: "header.wal_offset", off: 16, len: 8 });
    v.push(Region { name: "header.wal_size", off: 24, len: 8 });
    v.push(Region { name: "header.wal_checkpoint_pos", off: 32, len: 8 });
    v.push(Region { name: "header.wal_sequence", off: 40, len: 8 });
    v.push(Region { name: "header.toc_checksum", off: 48, len: 32 });
    v.push(Region { name: "header.rest", off: 80, len: 4016 });
    v.push(Region { name: "wal", off: 4096, len: wal_size });
    for (o, l) in frames {
        if *l > 0 {
            v.push(Region { name: "payload", off: *o, len: *l });
        }
    }
    let data_start = 4096 + wal_size;
    let pay_end = frames.iter().map(|(o, l)| o + l).max().unwrap_or(data_start).max(data_start);
    if footer_off > pay_end && footer_off <= n {
        v.push(Region { name: "indexes", off: pay_end, len: footer_off - pay_end });
    }
    if footer_off < n && n >= 56 {
        v.push(Region { name: "toc", off: footer_off, len: n - 56 - footer_off.min(n - 56) });
        v.push(Region { name: "footer", off: n - 56, len: 56 });
        v.push(Region { name: "footer.hash", off: n - 56 + 16, len: 32 });
        v.push(Region { name: "footer.toc_len", off: n - 56 + 8, len: 8 });
    }
    v.retain(|r| r.len > 0 && r.off < n);
    v
}

pub fn gen_faults(r: &mut Rng, regs: &[Region], bytes: &[u8], count: usize, log_writes: &[usize], repairable_only: bool, footer_focus: bool) -> Vec<(Medium, &'static str)> {
    let n_bytes = bytes.len() as u64;
    let mut out = Vec::new();
    for _ in 0..count {
        if footer_focus && n_bytes >= 56 && r.chance(1, 8) {
            // a torn later trailer that starts inside, right behind or shortly after the last
            // footer (its generation field is not covered by the hash, so the footer stays valid)
            let foot = n_bytes - 56;
            let at = foot + *r.pickv(&[48u64, 49, 52, 55, 56, 57, 60, 100, 8, 16]);
            out.push((Medium::TornTrailer { at, len: *r.pickv(&[48u64, 48, 56, 100, 8]), seed: r.next() }, "footer"));
            continue;
        }
        let mut reg = r.pickv(regs).clone();
        if repairable_only {
            // C21: only structures doctor claims to repair
            let cands: Vec<&Region> = regs.iter().filter(|x| matches!(x.name, "header.footer_offset" | "header.toc_checksum" | "footer" | "footer.hash" | "indexes")).collect();
            if cands.is_empty() {
                continue;
            }
            reg = (*r.pickv(&cands)).clone();
        }
        // little-endian numeric fields: most of the time aim at the two low-order bytes, where a
        // flip yields a nearby plausible value instead of an absurd one
        let numeric = matches!(reg.name, "header.footer_offset" | "header.wal_offset" | "header.wal_size" | "header.wal_checkpoint_pos" | "header.wal_sequence" | "footer.toc_len");
        let off = if numeric && r.chance(3, 4) { reg.off + r.below(2) } else { reg.off + r.below(reg.len) };
        if numeric && r.chance(1, 3) {
            // length-field edit: boundary values around the file length, the footer position,
            // the field's own position and the current value
            let cur = bytes.get(reg.off as usize..reg.off as usize + 8).map(|b| u64::from_le_bytes(b.try_into().unwrap())).unwrap_or(0);
            let foot = n_bytes.saturating_sub(56);
            let cands = [
                0u64, 1, n_bytes, n_bytes.saturating_sub(1), n_bytes + 1, foot, foot + 1, foot + 8, foot.saturating_sub(1), foot + 56, reg.off, reg.off + 8, 4096, 4096 + 65536,
                cur.wrapping_add(1), cur.wrapping_sub(1), cur.wrapping_add(56), cur.wrapping_sub(56), cur.wrapping_mul(2), u64::MAX, 1 << 63, 1 << 32, (1 << 32) - 1, u64::MAX - 55,
            ];
            let val = *r.pickv(&cands);
            if val != cur {
                out.push((Medium::SetU64 { off: reg.off, val }, reg.name));
                continue;
            }
        }
        let m = match r.below(if repairable_only { 6 } else { 12 }) {
            0..=3 => Medium::Flip { off, mask: 1 << r.below(8) },
            4 => Medium::Zero { off: reg.off, len: reg.len.min(r.range(1, 4096)) },
            5 => Medium::Garbage { off, len: r.range(1, 64).min(reg.off + reg.len - off), seed: r.next() },
            6 => Medium::Zero { off: off & !511, len: 512 },
            7 => Medium::Truncate { len: off },
            8 => Medium::Truncate { len: n_bytes - r.range(1, 57.min(n_bytes)) },
            9 if !log_writes.is_empty() => Medium::LostWrite { idx: *r.pickv(log_writes) },
            10 => {
                let l = r.range(8, 4096).min(n_bytes / 2);
                Medium::Misdirect { src: r.below(n_bytes - l), dst: off.min(n_bytes - l), len: l }
            }
            _ => Medium::Splice { head: off, tail_from: r.below(n_bytes) },
        };
        out.push((m, reg.name));
    }
    out
}

thread_local! {
    static PHASE_MS: std::cell::RefCell<BTreeMap<String, u64>> = Default::default();
}

fn guarded<T>(what: &str, f: impl FnOnce() -> T) -> Result<T, String> {
    let t0 = shim::real_ms();
    let r = guarded_inner(what, f);
    let dt = shim::real_ms() - t0;
    PHASE_MS.with(|m| *m.borrow_mut().entry(format!("ms_{}", what.replace(' ', "_"))).or_default() += dt);
    r
}

fn guarded_inner<T>(what: &str, f: impl FnOnce() -> T) -> Result<T, String> {
    catch_unwind(AssertUnwindSafe(f)).map_err(|p| {
        let msg = p.downcast_ref::<String>().cloned().or_else(|| p.downcast_ref::<&str>().map(|s| s.to_string())).unwrap_or_else(|| "panic".into());
        format!("{what}: {msg}")
    })
}

fn panic_sig(msg: &str) -> String {
    // location-free class of a panic message
    let s: String = msg.chars().filter(|c| !c.is_ascii_digit()).take(80).collect();
    s.trim().replace(' ', "-")
}

pub fn run_corrupt(scn: &Scenario, prop: &str, explore: bool) -> RunResult {
    let t0 = shim::real_ms();
    runner::setup_env(scn);
    let root = runner::scratch_root();
    let mut w = World::new(&root, scn);
    w.run(&scn.ops);
    // make sure the file is closed and committed
    if w.mem.is_some() {
        w.run_op(scn.ops.len(), &Op::Close);
    }
    w.finish_segment();
    let mut res = runner::collect(&mut w, scn, prop, t0);
    res.violations.clear();
    res.repro = None;
    let Ok(pristine) = std::fs::read(&w.path) else {
        res.inconclusive = true;
        return res;
    };
    let history_broken = w.violations.iter().any(|v| v.props.iter().any(|p| p == "C01" || p == "PANIC"));
    if history_broken || !w.model.exists {
        res.inconclusive = true;
        return res;
    }
    // pristine observation
    let pdir = format!("{root}/pristine");
    std::fs::create_dir_all(&pdir).unwrap();
    std::fs::write(format!("{pdir}/{FILE}"), &pristine).unwrap();
    let (orig, frames_pos, n_frames) = match Memvid::open_read_only(format!("{pdir}/{FILE}")) {
        Ok(mut m) => {
            let n = m.frame_count() as u64;
            let pos: Vec<(u64, u64)> = (0..n).filter_map(|id| m.frame_by_id(id).ok()).map(|f| (f.payload_offset, f.payload_length)).collect();
            (observe_reads_ext(&mut m, n, prop != "C21"), pos, n)
        }
        Err(_) => {
            res.inconclusive = true;
            return res;
        }
    };
    let regs = regions(&w, &pristine, &frames_pos);
    let last_seg = w.segs.last();
    let log_writes: Vec<usize> = last_seg.map(|s| s.log.iter().enumerate().filter(|(_, o)| o.kind == Kind::Write && o.len > 0).map(|(i, _)| i).collect()).unwrap_or_default();
    let mut r = Rng::new(scn.seed, "medium");
    let tier_thorough = scn.knobs.get("thorough").copied().unwrap_or(0) != 0;
    let faults: Vec<(Medium, &'static str)> = if let Some(m) = &scn.medium {
        vec![(m.clone(), "explicit")]
    } else if explore {
        let n = if tier_thorough { 300 } else { 40 };
        gen_faults(&mut r, &regs, &pristine, n, &log_writes, prop == "C21", prop == "C31")
    } else {
        Vec::new()
    };
    // a lost write is addressed by the write, not by the region that was drawn before it
    let lost_label = |idx: usize| -> &'static str {
        let off = last_seg.and_then(|s| s.log.get(idx)).map(|o| o.off).unwrap_or(u64::MAX);
        if off < 4096 {
            "lost-write@header"
        } else {
            match regs.iter().find(|r| r.off <= off && off < r.off + r.len).map(|r| r.name) {
                Some("wal") => "lost-write@wal",
                Some("payload") => "lost-write@payload",
                Some("indexes") => "lost-write@indexes",
                Some("toc") => "lost-write@toc",
                Some(n) if n.starts_with("footer") => "lost-write@footer",
                _ => "lost-write@elsewhere",
            }
        }
    };
    let faults: Vec<(Medium, &'static str)> = faults.into_iter().map(|(m, n)| if let Medium::LostWrite { idx } = &m { let l = lost_label(*idx); (m, l) } else { (m, n) }).collect();
    let mut found: Vec<(ViolationRec, Medium)> = Vec::new();
    let mut by_region: BTreeMap<String, u64> = BTreeMap::new();
    let mut by_kind: BTreeMap<String, u64> = BTreeMap::new();
    let mut stats: BTreeMap<&'static str, u64> = BTreeMap::new();
    let known: Vec<String> = crate::evidence::load_findings().into_iter().filter(|f| f.status == "known").map(|f| f.signature).collect();
    let mut unknown = 0;
    let soft_ms: u64 = if tier_thorough { 300_000 } else { 90_000 };
    for (k, (m, regname)) in faults.iter().enumerate() {
        if unknown >= 2 || shim::real_ms() - t0 > soft_ms {
            break;
        }
        let bytes = match m {
            Medium::LostWrite { idx } => {
                let Some(seg) = last_seg else { continue };
                let img = disk::build(&seg.log, &seg.base, &disk::CrashSpec::Power { cut: seg.log.len(), drop: vec![*idx], tear: None, dir_keep: usize::MAX });
                match img.files.get(FILE) {
                    Some(b) => b.clone(),
                    None => continue,
                }
            }
            _ => apply(&pristine, m),
        };
        if bytes == pristine {
            *stats.entry("fault_without_effect").or_default() += 1;
            continue;
        }
        // root cause named by its effect on the decoded header: an image whose stored log sequence
        // number is lower than the committed one makes open re-apply records that are already part
        // of the committed state (whatever fault produced that value)
        let seq_of = |b: &[u8]| if b.len() >= 48 { u64::from_le_bytes(b[40..48].try_into().unwrap()) } else { u64::MAX };
        let regname: &'static str = if seq_of(&bytes) < seq_of(&pristine) { "header.wal_sequence-lowered" } else { regname };
        let regname = &regname;
        *by_region.entry(regname.to_string()).or_default() += 1;
        let kind = format!("{:?}", m).split([' ', '{']).next().unwrap_or("").to_string();
        *by_kind.entry(kind.clone()).or_default() += 1;
        *stats.entry("images").or_default() += 1;
        let dir = format!("{root}/m{k}");
        std::fs::create_dir_all(&dir).unwrap();
        let path = format!("{dir}/{FILE}");
        let mut vs: Vec<ViolationRec> = Vec::new();
        let mk = |props: &[&str], oracle: &str, sig: String, msg: String| ViolationRec { props: props.iter().map(|s| s.to_string()).collect(), oracle: oracle.to_string(), sig, msg, op: 0 };
        // ---- C31: footer scan vs naive reference
        if prop == "C31" {
            let got = guarded("find_last_valid_footer", || memvid_core::find_last_valid_footer(&bytes).map(|f| (f.footer_offset, f.toc_offset, f.toc_bytes.len())));
            match got {
                Err(p) => vs.push(mk(&["C31"], "footer-scan-no-panic", String::new(), format!("{m:?} in {regname}: {p}"))),
                Ok(g) => {
                    let exp = naive_footer(&bytes);
                    *stats.entry(if exp.is_some() { "footer_found" } else { "footer_absent" }).or_default() += 1;
                    match (g, exp) {
                        (None, None) => {}
                        (Some((fo, to, tl)), Some((efo, eto))) => {
                            if fo != efo || to != eto || tl != efo - eto {
                                vs.push(mk(&["C31"], "footer-scan-equals-reference", String::new(), format!("{m:?} in {regname}: scan returned footer at {fo} (toc {to}+{tl}), reference finds the last valid footer at {efo} (toc {eto})")));
                            }
                        }
                        (g, e) => vs.push(mk(&["C31"], "footer-scan-equals-reference", String::new(), format!("{m:?} in {regname}: scan returned {:?}, reference {:?}", g.map(|x| x.0), e.map(|x| x.0)))),
                    }
                }
            }
        }
        // ---- C20 / C22: read-only open + reads; verify; writable open + reads
        if prop == "C20" || prop == "C22" {
            std::fs::write(&path, &bytes).unwrap();
            let verify = guarded("verify", || Memvid::verify(&path, true));
            let mut verify_passed = false;
            match &verify {
                Err(p) => vs.push(mk(&["C22"], "no-panic", panic_sig(p), format!("{m:?} in {regname}: {p}"))),
                Ok(Ok(rep)) => verify_passed = rep.overall_status == VerificationStatus::Passed,
                Ok(Err(_)) => {}
            }
            for mode in ["open_read_only", "open"] {
                std::fs::write(&path, &bytes).unwrap();
                let opened = guarded(mode, || if mode == "open" { Memvid::open(&path) } else { Memvid::open_read_only(&path) });
                match opened {
                    Err(p) => vs.push(mk(&["C22"], "no-panic", panic_sig(&p), format!("{m:?} in {regname}: {p}"))),
                    Ok(Err(_)) => *stats.entry("open_rejected").or_default() += 1,
                    Ok(Ok(mut mem)) => {
                        *stats.entry("open_accepted").or_default() += 1;
                        let reads = guarded("reads", || observe_reads_ext(&mut mem, n_frames, true));
                        match reads {
                            Err(p) => vs.push(mk(&["C22"], "no-panic", panic_sig(&p), format!("{m:?} in {regname}: {mode} then {p}"))),
                            Ok(got) => {
                                for (id, (g, o)) in got.iter().zip(orig.iter()).enumerate() {
                                    let mut diff: Option<&str> = None;
                                    if g.0 != "ERR" && g.0 != o.0 {
                                        diff = Some("frame fields");
                                    } else if g.1 != "ERR" && g.1 != "-" && o.1 != "-" && g.1 != o.1 {
                                        diff = Some("payload bytes");
                                    } else if g.2 != "ERR" && g.2 != "-" && o.2 != "-" && g.2 != o.2 {
                                        diff = Some("embedding");
                                    }
                                    if let Some(what) = diff {
                                        *stats.entry("silent_differences").or_default() += 1;
                                        let sig = format!("{}:{}", regname, what.replace(' ', "-"));
                                        vs.push(mk(&["C20"], "original-or-error", sig.clone(), format!("{m:?} in {regname}: {mode} succeeded and frame {id} returned different {what} than committed (verify(deep) {}){}", if verify_passed { "Passed" } else { "did not pass" }, if std::env::var("MEMSIM_DUMP").is_ok() { format!(" got={:?} committed={:?}", g, o) } else { String::new() })));
                                        if verify_passed {
                                            vs.push(mk(&["C20"], "verify-not-passed-when-reads-differ", sig, format!("{m:?} in {regname}: verify(deep=true) reported Passed although frame {id} reads different {what}")));
                                        }
                                        break;
                                    }
                                }
                                // other read APIs must not panic either
                                let extra = guarded("read battery", || {
                                    let _ = mem.stats();
                                    let _ = mem.timeline(memvid_core::TimelineQuery::default());
                                    let _ = mem.search(memvid_core::SearchRequest { query: "zorvak".into(), top_k: 5, snippet_chars: 80, uri: None, scope: None, cursor: None, as_of_frame: None, as_of_ts: None, no_sketch: false, acl_context: None, acl_enforcement_mode: Default::default() });
                                    for id in 0..n_frames.min(6) {
                                        let _ = mem.frame_text_by_id(id);
                                        let _ = mem.blob_reader(id).map(|mut b| {
                                            let mut v = Vec::new();
                                            let _ = std::io::Read::read_to_end(&mut b, &mut v);
                                        });
                                    }
                                    let _ = mem.search_vec(&[0.0, 0.0, 0.0], 3);
                                });
                                if let Err(p) = extra {
                                    vs.push(mk(&["C22"], "no-panic", panic_sig(&p), format!("{m:?} in {regname}: {mode} then {p}")));
                                }
                            }
                        }
                        let d = guarded("drop", move || drop(mem));
                        if let Err(p) = d {
                            vs.push(mk(&["C22"], "no-panic", panic_sig(&p), format!("{m:?} in {regname}: {p}")));
                        }
                    }
                }
            }
            if prop == "C22" {
                for (what, dry) in [("doctor_plan", true), ("doctor", false)] {
                    std::fs::write(&path, &bytes).unwrap();
                    let opts = DoctorOptions { rebuild_time_index: r.chance(1, 3), rebuild_lex_index: r.chance(1, 3), rebuild_vec_index: false, vacuum: false, dry_run: dry, quiet: true };
                    let rr = guarded(what, || if dry { Memvid::doctor_plan(&path, opts).map(|_| ()) } else { Memvid::doctor(&path, opts).map(|_| ()) });
                    if let Err(p) = rr {
                        vs.push(mk(&["C22"], "no-panic", panic_sig(&p), format!("{m:?} in {regname}: {p}")));
                    }
                }
            }
        }
        // ---- C21: doctor heals repairable damage and preserves frames
        if prop == "C21" {
            std::fs::write(&path, &bytes).unwrap();
            let opts = DoctorOptions { rebuild_time_index: r.chance(1, 3), rebuild_lex_index: r.chance(1, 3), rebuild_vec_index: r.chance(1, 4), vacuum: r.chance(1, 3), dry_run: false, quiet: true };
            let before = std::fs::read(&path).unwrap_or_default();
            // what a read-only open of the damaged file serves before doctor touches it
            let pre: Option<Vec<(String, String, String)>> = guarded("pre-doctor reads", || Memvid::open_read_only(&path).ok().map(|mut m| observe_reads(&mut m, n_frames))).ok().flatten();
            // dry run first: must not touch the file
            let dry = guarded("doctor dry-run", || Memvid::doctor(&path, DoctorOptions { dry_run: true, ..opts.clone() }).map(|_| ()));
            if let Err(p) = &dry {
                vs.push(mk(&["C21", "C22"], "no-panic", panic_sig(p), format!("{m:?} in {regname}: {p}")));
            }
            if std::fs::read(&path).unwrap_or_default() != before {
                vs.push(mk(&["C21"], "dry-run-writes-nothing", String::new(), format!("{m:?} in {regname}: doctor(dry_run) changed the file")));
            }
            let rep = guarded("doctor", || Memvid::doctor(&path, opts.clone()));
            match rep {
                Err(p) => vs.push(mk(&["C21", "C22"], "no-panic", panic_sig(&p), format!("{m:?} in {regname}: {p}"))),
                Ok(Err(e)) => {
                    *stats.entry("doctor_refused").or_default() += 1;
                    let _ = e;
                }
                Ok(Ok(report)) => {
                    *stats.entry("doctor_ran").or_default() += 1;
                    if report.status == DoctorStatus::Failed {
                        *stats.entry("doctor_reported_failed").or_default() += 1;
                        // Even a doctor run that gives up must not remove or alter a frame: whatever a
                        // read-only open served correctly before the run is still served afterwards.
                        if let Some(pre) = &pre {
                            *stats.entry("failed_doctor_compared").or_default() += 1;
                            let post: Option<Vec<(String, String, String)>> = guarded("post-doctor reads", || Memvid::open_read_only(&path).ok().map(|mut m| observe_reads(&mut m, n_frames))).ok().flatten();
                            for (id, (b, o)) in pre.iter().zip(orig.iter()).enumerate() {
                                let was_good = b.0 == o.0 && o.1 != "-" && b.1 == o.1;
                                if !was_good {
                                    continue;
                                }
                                let still = post.as_ref().and_then(|p| p.get(id)).is_some_and(|a| a.0 == o.0 && a.1 == o.1);
                                if !still {
                                    vs.push(mk(&["C21"], "frames-preserved", format!("{regname}:doctor-failed"), format!("{m:?} in {regname}: frame {id} was readable and correct before doctor ({:?}); doctor reported Failed and afterwards {}", opts, if post.is_some() { "the frame reads differently or not at all" } else { "the file no longer opens" })));
                                    break;
                                }
                            }
                        }
                    } else {
                        match try_open(&path).mem {
                            None => vs.push(mk(&["C21"], "opens-after-doctor", regname.to_string(), format!("{m:?} in {regname}: doctor reported {:?} but the file does not open", report.status))),
                            Some(mut mem) => {
                                let got = observe_reads(&mut mem, n_frames);
                                drop(mem);
                                for (id, (g, o)) in got.iter().zip(orig.iter()).enumerate() {
                                    if g.0 != o.0 || (o.1 != "-" && g.1 != o.1) {
                                        vs.push(mk(&["C21"], "frames-preserved", regname.to_string(), format!("{m:?} in {regname}: after doctor frame {id} is {:?}/{} , committed {:?}/{}", g.0, g.1, o.0, o.1)));
                                        break;
                                    }
                                }
                                match Memvid::verify(&path, true) {
                                    Ok(v) if v.overall_status == VerificationStatus::Passed => {}
                                    Ok(v) => vs.push(mk(&["C21"], "verify-passes", regname.to_string(), format!("{m:?} in {regname}: verify after doctor = {:?}: {}", v.overall_status, v.checks.iter().filter(|c| c.status == VerificationStatus::Failed).map(|c| format!("{}:{:?}", c.name, c.details)).collect::<Vec<_>>().join("; ")))),
                                    Err(e) => vs.push(mk(&["C21"], "verify-passes", regname.to_string(), format!("{m:?} in {regname}: verify after doctor failed: {e}"))),
                                }
                                match Memvid::doctor(&path, DoctorOptions { quiet: true, ..Default::default() }) {
                                    Ok(r2) if r2.status == DoctorStatus::Clean => {}
                                    Ok(r2) => vs.push(mk(&["C21"], "second-run-clean", regname.to_string(), format!("{m:?} in {regname}: second doctor run reported {:?}", r2.status))),
                                    Err(e) => vs.push(mk(&["C21"], "second-run-clean", regname.to_string(), format!("{m:?} in {regname}: second doctor run failed: {e}"))),
                                }
                            }
                        }
                    }
                }
            }
        }
        let _ = std::fs::remove_dir_all(&dir);
        for v in vs {
            if !v.props.iter().any(|p| p == prop) {
                continue;
            }
            let sg = crate::evidence::signature(prop, &v.oracle, &v.sig);
            if found.iter().any(|(f, _)| crate::evidence::signature(prop, &f.oracle, &f.sig) == sg) {
                continue;
            }
            if !known.contains(&sg) {
                unknown += 1;
            }
            found.push((v, m.clone()));
        }
    }
    let _ = std::fs::remove_dir_all(&pdir);
    for (k, v) in &stats {
        res.probes.insert(format!("medium_{k}"), *v);
    }
    PHASE_MS.with(|m| {
        for (k, v) in m.borrow().iter() {
            res.probes.insert(k.clone(), *v);
        }
    });
    for (k, v) in &by_region {
        res.probes.insert(format!("fault_in_{k}"), *v);
    }
    for (k, v) in &by_kind {
        *res.faults_fired.entry(format!("medium_{}", k.to_lowercase())).or_default() += *v;
    }
    res.images = stats.get("images").copied().unwrap_or(0);
    res.nontrivial = w.probes.acked_mutations > 0 && res.images > 0;
    res.violations = found.iter().map(|(v, _)| v.clone()).collect();
    let pick = found.iter().find(|(v, _)| !known.contains(&crate::evidence::signature(prop, &v.oracle, &v.sig))).or(found.first());
    if let Some((_, m)) = pick {
        let mut s = scn.clone();
        s.medium = Some(m.clone());
        res.repro = Some(s);
    }
    res.wall_ms = shim::real_ms() - t0;
    res.sample = Some(serde_json::json!({"history": runner::sample_of(scn, &w), "file_bytes": pristine.len(), "faults": faults.iter().take(6).map(|(m, rn)| format!("{m:?} in {rn}")).collect::<Vec<_>>() }));
    res
}
