//! check / replay entry points, known-findings handling, evidence files.
use crate::checks::{self, CheckDef, Tier};
use crate::coord;
use crate::ops::Scenario;
use crate::runner::RunResult;
use serde::{Deserialize, Serialize};
use std::time::Duration;

pub fn verif_dir() -> String {
    std::env::var("VERIF_DIR").unwrap_or_else(|_| "/verif".to_string())
}

#[derive(Serialize, Deserialize, Clone, Debug)]
pub struct ReplayFile {
    pub property: String,
    pub oracle: String,
    pub sig: String,
    pub seed: u64,
    pub message: String,
    pub scenario: Scenario,
    pub log_digest: String,
    pub minimised: bool,
}

#[derive(Deserialize, Clone, Debug)]
pub struct Finding {
    pub status: String,
    pub property: String,
    #[serde(default)]
    pub signature: String,
    #[serde(default)]
    pub what: String,
}

pub fn load_findings() -> Vec<Finding> {
    let p = format!("{}/KNOWN_FINDINGS.jsonl", verif_dir());
    let Ok(s) = std::fs::read_to_string(p) else { return Vec::new() };
    s.lines().filter(|l| !l.trim().is_empty() && !l.trim_start().starts_with('#')).filter_map(|l| serde_json::from_str(l).ok()).collect()
}

pub fn signature(prop: &str, oracle: &str, sig: &str) -> String {
    if sig.is_empty() { format!("{prop}/{oracle}") } else { format!("{prop}/{oracle}/{sig}") }
}

fn first_violation<'a>(r: &'a RunResult, prop: &str) -> Option<&'a crate::runner::ViolationRec> {
    r.violations.iter().find(|v| v.props.iter().any(|p| p == prop))
}

pub fn check_main(def: &CheckDef, tier: Tier, seed: u64) -> i32 {
    let findings = load_findings();
    let known_sigs: Vec<String> = findings.iter().filter(|f| f.status == "known" && f.property == def.id).map(|f| f.signature.clone()).collect();
    let agg = coord::explore(def, tier, seed, &known_sigs);
    let mut exit = 0;
    let mut violations_reported = 0;
    let mut known_printed: Vec<String> = Vec::new();
    // group violating runs by signature; minimise one representative per signature
    let mut by_sig: std::collections::BTreeMap<String, &RunResult> = std::collections::BTreeMap::new();
    for r in &agg.violating {
        for v in r.violations.iter().filter(|v| v.props.iter().any(|p| p == def.id)) {
            let sg = signature(def.id, &v.oracle, &v.sig);
            // prefer a run whose repro scenario targets this very signature
            let targeted = r.violations.iter().find(|x| !known_sigs.contains(&signature(def.id, &x.oracle, &x.sig))).map(|x| signature(def.id, &x.oracle, &x.sig) == sg).unwrap_or(true);
            if targeted || !by_sig.contains_key(&sg) {
                by_sig.entry(sg).or_insert(r);
            }
        }
    }
    if std::env::var("MEMSIM_SWEEP").is_ok() {
        // triage mode: list every signature seen (known or not) with a count; no shrinking, no
        // replay files, no evidence, always exit 0
        let mut counts: std::collections::BTreeMap<String, (u64, u64, String)> = Default::default();
        for r in &agg.violating {
            for v in r.violations.iter().filter(|v| v.props.iter().any(|p| p == def.id)) {
                let sg = signature(def.id, &v.oracle, &v.sig);
                let e = counts.entry(sg).or_insert((0, r.seed, v.msg.chars().take(260).collect()));
                e.0 += 1;
            }
        }
        for (sg, (n, seed, msg)) in &counts {
            println!("SWEEP-SIG {} {} n={n} seed={seed} : {msg}", if known_sigs.contains(sg) { "known" } else { "NEW" }, sg);
        }
        println!("sweep: {} runs, seeds {}..{}, {} child deaths, {} harness errors", agg.evaluations, agg.first_seed, agg.last_seed, agg.crashed_children.len(), agg.harness_errors.len());
        return 0;
    }
    let _ = std::fs::create_dir_all(format!("{}/replays", verif_dir()));
    for (sig, r) in by_sig.iter() {
        let v = r.violations.iter().find(|v| signature(def.id, &v.oracle, &v.sig) == *sig).unwrap();
        let known = findings.iter().find(|f| f.status == "known" && f.property == def.id && f.signature == *sig);
        if let Some(k) = known {
            if !known_printed.contains(sig) {
                println!("KNOWN-FINDING: property={} {} [{}]", def.id, k.what, sig);
                known_printed.push(sig.clone());
            }
            continue;
        }
        // unknown violation: minimise, write the replay file, report
        let start = r.repro.clone().expect("violating run carries its scenario");
        let budget = Duration::from_secs(if tier == Tier::Quick { 120 } else { 600 });
        let min = if std::env::var("MEMSIM_NO_SHRINK").is_ok() { start.clone() } else { crate::shrink::shrink(def, &start, def.id, &v.oracle, &v.sig, budget) };
        // re-run the minimised scenario to get its message and digest
        let rr = coord::eval_many(def, &[min.clone()], Duration::from_secs(300));
        let (msg, digest, still) = match &rr[0] {
            Some(x) => match x.violations.iter().find(|y| y.oracle == v.oracle && y.sig == v.sig) {
                Some(y) => (y.msg.clone(), x.log_digest.clone(), true),
                None => (v.msg.clone(), x.log_digest.clone(), false),
            },
            None => (v.msg.clone(), String::new(), false),
        };
        let (scn, minimised) = if still { (rr[0].as_ref().and_then(|x| x.repro.clone()).unwrap_or(min), true) } else { (start, false) };
        let h = blake3::hash(serde_json::to_string(&scn).unwrap().as_bytes()).to_hex()[..8].to_string();
        let path = format!("{}/replays/{}-{}-{}.json", verif_dir(), def.id, r.seed, h);
        let rf = ReplayFile { property: def.id.to_string(), oracle: v.oracle.clone(), sig: v.sig.clone(), seed: r.seed, message: msg.clone(), scenario: scn, log_digest: digest, minimised };
        let _ = std::fs::write(&path, serde_json::to_string_pretty(&rf).unwrap());
        println!("violation: property={} oracle={} sig={} seed={} : {}", def.id, v.oracle, sig, r.seed, msg);
        println!("VIOLATION property={} replay={}", def.id, path);
        violations_reported += 1;
        exit = 1;
    }
    // harness problems
    let crashed: Vec<&(u64, String)> = agg.crashed_children.iter().collect();
    if !crashed.is_empty() {
        eprintln!("note: {} child runs died without a result (first: seed {} {})", crashed.len(), crashed[0].0, crashed[0].1);
    }
    if !agg.harness_errors.is_empty() {
        eprintln!("harness error in {} runs (first: seed {}: {})", agg.harness_errors.len(), agg.harness_errors[0].0, agg.harness_errors[0].1);
    }
    for p in def.want_probes {
        if agg.probes.get(*p).copied().unwrap_or(0) == 0 {
            eprintln!("warning: probe `{p}` stayed at zero in this batch");
        }
    }
    write_evidence(def, tier, seed, &agg, violations_reported, &known_printed);
    println!(
        "memsim: {} runs ({} non-trivial classes, {} inconclusive) in {:.1}s; {} images; {} violations; {} known findings",
        agg.evaluations,
        agg.nontrivial_classes.len(),
        agg.inconclusive,
        agg.wall_s,
        agg.images,
        violations_reported,
        known_printed.len()
    );
    if exit == 0 && (agg.evaluations == 0 || (!agg.harness_errors.is_empty() && agg.harness_errors.len() as u64 > agg.evaluations / 10) || (agg.crashed_children.len() as u64 > agg.evaluations / 10 + 2)) {
        eprintln!("harness failure: too few completed runs");
        return 2;
    }
    exit
}

fn write_evidence(def: &CheckDef, tier: Tier, seed: u64, agg: &coord::Agg, violations: u64, known: &[String]) {
    let dir = format!("{}/evidence", verif_dir());
    let _ = std::fs::create_dir_all(&dir);
    let runs_per_hour = if agg.wall_s > 0.0 { agg.evaluations as f64 * 3600.0 / agg.wall_s } else { 0.0 };
    let ev = serde_json::json!({
        "property_id": def.id,
        "tier": if tier == Tier::Quick { "quick" } else { "thorough" },
        "seed": seed,
        "level": def.level,
        "coverage": {
            "evaluations": agg.evaluations,
            "distinct_nontrivial": agg.nontrivial_classes.len(),
            "rule": def.rule,
            "samples": agg.samples,
            "seeds": {"first": agg.first_seed, "last": agg.last_seed, "stride": 1},
            "runs_per_hour": runs_per_hour.round(),
            "simulated_seconds": agg.sim_seconds,
            "tracked_syscalls": agg.tracked,
            "crash_images_evaluated": agg.images,
            "faults_fired": agg.faults,
            "probes": agg.probes,
            "distinct_states": agg.states.len(),
            "distinct_states_measure": "distinct reference-model digests after each operation (x crash-image hashes for crash checks)",
            "distinct_classes_all_runs": agg.classes.len(),
            "inconclusive_runs": agg.inconclusive,
            "child_deaths": agg.crashed_children.len(),
            "known_findings_seen": known,
            "real_components": ["memvid-core (all of src/, unmodified)", "tantivy", "zstd", "bincode", "blake3", "atomic-write-file", "fs2", "memmap2", "kernel tmpfs as page-cache view"],
            "stubbed_components": ["durable medium (reconstructed from the syscall log)", "process crash / power loss / restart", "wall + monotonic clock and sleeps (virtual, actor threads only)", "OS entropy (seeded, lineage-keyed per thread)", "embedding models (generated vectors)"],
            "exhaustive": false
        },
        "assumptions": def.assumptions,
        "wall_s": agg.wall_s,
        "violations": violations
    });
    let _ = std::fs::write(format!("{dir}/{}.json", def.id), serde_json::to_string_pretty(&ev).unwrap());
}

pub fn replay_main(path: &str) -> i32 {
    let Ok(s) = std::fs::read_to_string(path) else {
        eprintln!("cannot read {path}");
        return 2;
    };
    let rf: ReplayFile = match serde_json::from_str(&s) {
        Ok(r) => r,
        Err(e) => {
            eprintln!("bad replay file: {e}");
            return 2;
        }
    };
    let Some(def) = checks::find(&rf.property) else { return 2 };
    let rr = coord::eval_many(&def, &[rf.scenario.clone()], Duration::from_secs(600));
    match &rr[0] {
        Some(r) => {
            if let Some(e) = &r.harness_error {
                eprintln!("harness error: {e}");
                return 2;
            }
            if let Some(v) = r.violations.iter().find(|v| v.oracle == rf.oracle && v.props.iter().any(|p| *p == rf.property)) {
                println!("violation: property={} oracle={} : {}", rf.property, v.oracle, v.msg);
                println!("VIOLATION property={} replay={}", rf.property, path);
                1
            } else {
                if !rf.log_digest.is_empty() && r.log_digest != rf.log_digest {
                    println!("not reproduced; execution digest {} differs from recorded {} (the code under test changed, or the harness diverged)", r.log_digest, rf.log_digest);
                } else {
                    println!("not reproduced: the recorded oracle `{}` passes on this tree", rf.oracle);
                }
                0
            }
        }
        None => {
            eprintln!("replay child died");
            2
        }
    }
}

/// Run n seeds twice each (different worker slots / load) and diff the full result records.
pub fn selftest_determinism(id: &str, n: u64) -> i32 {
    let Some(def) = checks::find(id) else { return 2 };
    let seeds: Vec<u64> = (0..n).map(|i| 7_000_000 + i * 13).collect();
    let scns: Vec<Scenario> = seeds.iter().map(|s| (def.gen)(*s, Tier::Quick)).collect();
    let a = coord::eval_many(&def, &scns, Duration::from_secs(300));
    std::env::set_var("MEMSIM_JOBS", "5");
    let mut rev = scns.clone();
    rev.reverse();
    let mut b = coord::eval_many(&def, &rev, Duration::from_secs(300));
    b.reverse();
    let mut bad = 0;
    for (i, (x, y)) in a.iter().zip(b.iter()).enumerate() {
        let key = |r: &Option<RunResult>| r.as_ref().map(|r| (r.log_digest.clone(), r.violations.len(), r.states.clone(), r.tracked_syscalls, r.faults_fired.clone(), format!("{:.6}", r.sim_seconds)));
        if key(x) != key(y) {
            bad += 1;
            if bad <= 5 {
                println!("DIVERGENCE seed {}: {:?} vs {:?}", seeds[i], key(x).map(|k| (k.0, k.1, k.3, k.5)), key(y).map(|k| (k.0, k.1, k.3, k.5)));
            }
        }
    }
    println!("determinism: {} seeds x 2 runs, {} divergent", n, bad);
    if bad == 0 { 0 } else { 1 }
}
