//! Simulated durable medium: reconstructs what survives a crash from the op log.
//!
//! * process crash: every completed syscall persists; the syscall at the cut may be
//!   applied partially.
//! * power loss: per inode, content at its last fsync plus an arbitrary subset of the
//!   later data ops (optionally torn); directory renames/unlinks are durable only up
//!   to the last directory fsync (later ones survive as a prefix); a file's own
//!   directory entry is durable once the file has been fsynced (weak reading).
use crate::shim::{Kind, LogOp};
use std::collections::BTreeMap;

#[derive(Clone, Debug, Default)]
pub struct FsImage {
    /// name -> content
    pub files: BTreeMap<String, Vec<u8>>,
}

#[derive(Clone, Debug, serde::Serialize, serde::Deserialize, PartialEq)]
pub enum CrashSpec {
    /// log[..cut] applied; if `partial` is Some(n) the Write at log[cut] is applied for n bytes
    Process { cut: usize, partial: Option<u64> },
    /// power loss at `cut`: `drop` lists log indices (< cut) of un-synced data ops that are lost,
    /// `tear` = (log index, bytes kept) for one surviving un-synced write,
    /// `dir_keep` = number of un-synced directory ops (renames/unlinks) that survive (prefix)
    Power { cut: usize, drop: Vec<usize>, tear: Option<(usize, u64)>, dir_keep: usize },
}

struct Fs {
    inodes: BTreeMap<u32, Vec<u8>>,
    names: BTreeMap<String, u32>,
}

impl Fs {
    fn new() -> Self {
        Fs { inodes: BTreeMap::new(), names: BTreeMap::new() }
    }
    fn write(&mut self, ino: u32, off: u64, data: &[u8]) {
        let f = self.inodes.entry(ino).or_default();
        let end = off as usize + data.len();
        if f.len() < end {
            f.resize(end, 0);
        }
        f[off as usize..end].copy_from_slice(data);
    }
    fn trunc(&mut self, ino: u32, len: u64) {
        let f = self.inodes.entry(ino).or_default();
        f.resize(len as usize, 0);
    }
    fn image(&self) -> FsImage {
        let mut files = BTreeMap::new();
        for (n, i) in &self.names {
            files.insert(n.clone(), self.inodes.get(i).cloned().unwrap_or_default());
        }
        FsImage { files }
    }
}

fn is_data(k: Kind) -> bool {
    matches!(k, Kind::Write | Kind::Trunc)
}
fn is_dirop(k: Kind) -> bool {
    matches!(k, Kind::Rename | Kind::Unlink)
}

/// Indices of un-synced data ops and un-synced dir ops at `cut`.
pub fn unsynced(log: &[LogOp], cut: usize) -> (Vec<usize>, Vec<usize>) {
    let cut = cut.min(log.len());
    let mut last_sync: BTreeMap<u32, usize> = BTreeMap::new();
    let mut last_dir = None;
    for (i, op) in log[..cut].iter().enumerate() {
        match op.kind {
            Kind::Fsync => {
                last_sync.insert(op.ino, i);
            }
            Kind::FsyncDir => last_dir = Some(i),
            _ => {}
        }
    }
    let mut data = Vec::new();
    let mut dir = Vec::new();
    for (i, op) in log[..cut].iter().enumerate() {
        if is_data(op.kind) {
            let synced = last_sync.get(&op.ino).is_some_and(|s| *s > i);
            if !synced {
                data.push(i);
            }
        } else if is_dirop(op.kind) {
            let synced = last_dir.is_some_and(|s| s > i);
            if !synced {
                dir.push(i);
            }
        }
    }
    (data, dir)
}

pub fn build(log: &[LogOp], base: &FsImage, spec: &CrashSpec) -> FsImage {
    let mut fs = Fs::new();
    let (cut, partial) = match spec {
        CrashSpec::Process { cut, partial } => (*cut, *partial),
        CrashSpec::Power { cut, .. } => (*cut, None),
    };
    let cut = cut.min(log.len());
    let (dropset, tear, dir_keep, power) = match spec {
        CrashSpec::Power { drop, tear, dir_keep, .. } => (drop.clone(), *tear, *dir_keep, true),
        _ => (Vec::new(), None, usize::MAX, false),
    };
    let (_unsynced_data, unsynced_dir) = if power { unsynced(log, cut) } else { (Vec::new(), Vec::new()) };
    // files created whose inode was never fsynced before the cut and whose dir was not synced:
    // under power loss the entry may be missing — we take the weak reading and keep it only if
    // the inode or the directory was synced after creation.
    let mut created_at: BTreeMap<u32, usize> = BTreeMap::new();
    let mut durable_create: BTreeMap<u32, bool> = BTreeMap::new();
    if power {
        for (i, op) in log[..cut].iter().enumerate() {
            match op.kind {
                Kind::Create => {
                    created_at.insert(op.ino, i);
                    durable_create.insert(op.ino, false);
                }
                Kind::Fsync => {
                    if created_at.contains_key(&op.ino) {
                        durable_create.insert(op.ino, true);
                    }
                }
                Kind::FsyncDir => {
                    for (_ino, d) in durable_create.iter_mut() {
                        *d = true;
                    }
                }
                _ => {}
            }
        }
    }
    let mut dir_seen = 0usize;
    for (i, op) in log[..cut].iter().enumerate() {
        match op.kind {
            Kind::OpenExisting => {
                if !fs.inodes.contains_key(&op.ino) {
                    let content = base.files.get(&op.name).cloned().unwrap_or_default();
                    fs.inodes.insert(op.ino, content);
                    fs.names.insert(op.name.clone(), op.ino);
                }
            }
            Kind::Create => {
                fs.inodes.entry(op.ino).or_default();
                if !power || durable_create.get(&op.ino).copied().unwrap_or(true) {
                    fs.names.insert(op.name.clone(), op.ino);
                }
            }
            Kind::Write => {
                if dropset.contains(&i) {
                    continue;
                }
                if let Some((ti, keep)) = tear {
                    if ti == i {
                        let k = (keep as usize).min(op.data.len());
                        fs.write(op.ino, op.off, &op.data[..k]);
                        continue;
                    }
                }
                fs.write(op.ino, op.off, &op.data);
            }
            Kind::Trunc => {
                if dropset.contains(&i) {
                    continue;
                }
                fs.trunc(op.ino, op.off);
            }
            Kind::Rename => {
                if power && unsynced_dir.contains(&i) {
                    dir_seen += 1;
                    if dir_seen > dir_keep {
                        continue;
                    }
                }
                if let Some(ino) = fs.names.remove(&op.name) {
                    fs.names.insert(op.name2.clone(), ino);
                }
            }
            Kind::Unlink => {
                if power && unsynced_dir.contains(&i) {
                    dir_seen += 1;
                    if dir_seen > dir_keep {
                        continue;
                    }
                }
                fs.names.remove(&op.name);
            }
            _ => {}
        }
    }
    if let Some(n) = partial {
        if let Some(op) = log.get(cut) {
            if op.kind == Kind::Write {
                let k = (n as usize).min(op.data.len());
                fs.write(op.ino, op.off, &op.data[..k]);
            }
        }
    }
    // files present in base that were never opened during the recording persist as they were
    let mut img = fs.image();
    let opened: Vec<&String> = log.iter().filter(|o| o.kind == Kind::OpenExisting).map(|o| &o.name).collect();
    for (n, c) in &base.files {
        if !opened.contains(&n) && !img.files.contains_key(n) {
            // only if no op ever named it (renamed-over or unlinked names were handled above)
            let touched = log[..cut].iter().any(|o| (o.name == *n || o.name2 == *n) && matches!(o.kind, Kind::Rename | Kind::Unlink | Kind::Create));
            if !touched {
                img.files.insert(n.clone(), c.clone());
            }
        }
    }
    img
}

/// Write an image into a fresh directory (must be called with tracking paused or on an untracked dir).
pub fn materialize(img: &FsImage, dir: &str) -> std::io::Result<()> {
    std::fs::create_dir_all(dir)?;
    for (n, c) in &img.files {
        std::fs::write(format!("{dir}/{n}"), c)?;
    }
    Ok(())
}

pub fn read_dir_image(dir: &str) -> FsImage {
    let mut files = BTreeMap::new();
    if let Ok(rd) = std::fs::read_dir(dir) {
        for e in rd.flatten() {
            if e.file_type().map(|t| t.is_file()).unwrap_or(false) {
                let name = e.file_name().to_string_lossy().into_owned();
                if let Ok(c) = std::fs::read(e.path()) {
                    files.insert(name, c);
                }
            }
        }
    }
    FsImage { files }
}

pub fn list_dir(dir: &str) -> Vec<String> {
    let mut v: Vec<String> = std::fs::read_dir(dir)
        .map(|rd| rd.flatten().map(|e| e.file_name().to_string_lossy().into_owned()).collect())
        .unwrap_or_default();
    v.sort();
    v
}

/// Digest of the structural part of a log (kinds, inodes, offsets, lengths) and of its content.
pub fn log_digest(log: &[LogOp]) -> (String, String) {
    let mut hs = blake3::Hasher::new();
    let mut hc = blake3::Hasher::new();
    for op in log {
        let line = format!("{:?}|{}|{}|{}|{}|{}\n", op.kind, op.ino, op.off, op.len, op.name.len(), op.name2.len());
        hs.update(line.as_bytes());
        hc.update(line.as_bytes());
        hc.update(&op.data);
        hc.update(op.name.as_bytes());
    }
    (hs.finalize().to_hex()[..16].to_string(), hc.finalize().to_hex()[..16].to_string())
}
