//! Scenario generators (swarm style: every run draws its own mix).
use crate::ops::*;
use crate::rng::Rng;

pub fn env_for(seed: u64, r: &mut Rng) -> EnvCfg {
    EnvCfg { env_seed: seed ^ 0xE1, real_base_s: 1_600_000_000 + r.below(200_000_000), jumpy_pm: if r.chance(1, 4) { r.range(1, 30) as u32 } else { 0 } }
}

/// Tracks what the generator believes exists, so that targets are mostly valid.
#[derive(Default, Clone)]
pub struct GenState {
    pub open: bool,
    pub ro: bool,
    pub exists: bool,
    /// committed frames: (active, is_chunk_parent_or_child, is_long_text)
    pub committed: Vec<(bool, bool, bool)>,
    pub pending: Vec<Vec<(bool, bool, bool)>>,
    pub pending_tomb: Vec<u64>,
    pub wal_used: u64,
    pub wal_size: u64,
    pub n: u64,
    pub vec_dim: Option<usize>,
}

impl GenState {
    pub fn flush(&mut self) {
        for g in std::mem::take(&mut self.pending) {
            self.committed.extend(g);
        }
        for t in std::mem::take(&mut self.pending_tomb) {
            if let Some(f) = self.committed.get_mut(t as usize) {
                f.0 = false;
            }
        }
        self.wal_used = 0;
    }
    pub fn active_targets(&self) -> Vec<u64> {
        self.committed.iter().enumerate().filter(|(i, f)| f.0 && !self.pending_tomb.contains(&(*i as u64))).map(|(i, _)| i as u64).collect()
    }
}

pub struct PayMix {
    pub weights: [u32; 10],
    pub max_bin: usize,
}

pub fn gen_pay(r: &mut Rng, mix: &PayMix, st: &GenState) -> Pay {
    let kinds = [PK::Empty, PK::Tiny, PK::Bin, PK::Zeros, PK::Compressible, PK::InvalidUtf8, PK::Text, PK::LongText, PK::Structured, PK::Unicode];
    let k = kinds[r.weighted(&mix.weights)];
    let seed = r.next();
    let len = match k {
        PK::Empty | PK::Literal => 0,
        PK::Tiny => r.range(1, 8) as usize,
        PK::Bin | PK::InvalidUtf8 => {
            // WAL steering: sometimes aim the ring's write head at interesting places
            match r.below(10) {
                0 => {
                    // land within 48 bytes of the region end (entry = 48 header + bincode envelope ~ 200 + payload)
                    let room = st.wal_size.saturating_sub(st.wal_used);
                    room.saturating_sub(r.range(200, 330)) as usize
                }
                1 => (st.wal_size * 3 / 4).saturating_sub(st.wal_used).saturating_sub(r.range(150, 400)) as usize,
                2 => r.range(st.wal_size / 2, st.wal_size + 5000) as usize,
                3 => r.range(20_000, 70_000) as usize,
                _ => r.range(4, mix.max_bin as u64) as usize,
            }
        }
        PK::Zeros | PK::Compressible => r.range(1, 100_000) as usize,
        PK::Text => r.range(12, 2300) as usize,
        PK::LongText => match r.below(4) {
            0 => r.range(2380, 2420) as usize,
            1 => 2400 * r.range(1, 3) as usize + r.range(0, 3) as usize,
            _ => r.range(2400, 9000) as usize,
        },
        PK::Structured => r.range(300, 6000) as usize,
        PK::Unicode => r.range(20, 4000) as usize,
    };
    Pay { kind: k, len: len.clamp(0, 300_000), seed, plant: Vec::new() }
}

fn est_wal(p: &Pay) -> u64 {
    // rough estimate of WAL bytes a put consumes (for steering only)
    match p.kind {
        PK::Zeros | PK::Compressible => 400,
        PK::Text | PK::Unicode | PK::Structured | PK::LongText => (p.len as u64) * 2 / 3 + 600,
        _ => p.len as u64 + 300,
    }
}

/// C01-family generator: put / put_with_embedding / update / delete / commit / close / open /
/// abandon, with WAL steering.
pub fn gen_history(seed: u64, max_ops: usize, allow_abandon: bool, extra: bool) -> Scenario {
    let mut r = Rng::new(seed, "workload");
    let env = env_for(seed, &mut r);
    let mut ops = vec![Op::Create];
    let mut st = GenState { open: true, exists: true, wal_size: 65536, ..Default::default() };
    let n_ops = 1 + r.below(max_ops as u64 - 1) as usize;
    // swarm: per-run mix
    let mut w = [1u32, 1, 6, 1, 1, 1, 6, 2, 1, 1];
    for x in w.iter_mut() {
        if r.chance(1, 3) {
            *x = 0;
        }
    }
    if w.iter().all(|x| *x == 0) {
        w[2] = 1;
    }
    let mix = PayMix { weights: w, max_bin: *r.pickv(&[200usize, 3000, 20_000, 60_000]) };
    let w_put = 10 + r.below(20) as u32;
    let w_upd = if r.chance(2, 3) { r.below(6) as u32 } else { 0 };
    let w_del = if r.chance(2, 3) { r.below(6) as u32 } else { 0 };
    let w_commit = 1 + r.below(8) as u32;
    let w_reopen = r.below(5) as u32;
    let w_abandon = if allow_abandon && r.chance(2, 3) { 1 + r.below(4) as u32 } else { 0 };
    let w_emb = if r.chance(1, 2) { r.below(8) as u32 } else { 0 };
    let w_check = 1;
    let w_vac = if extra && r.chance(1, 3) { 1 } else { 0 };
    let w_doc = if extra && r.chance(1, 3) { 1 } else { 0 };
    let dim = r.range(1, 16) as usize;
    let use_uri = r.chance(1, 2);
    let w_steer = if r.chance(1, 3) { 3 } else { 0 };
    // memory cards live in a track of their own that only a commit writes: a commit that carries
    // cards and nothing else is a path of its own
    let w_cards = if extra && r.chance(1, 3) { 3 } else { 0 };
    let card_times: Vec<i64> = vec![-5, 0, 7, 1_700_000_000];
    // bulk ingestion: batch mode (skip_sync, compression level, no auto-checkpoint, pre-sized log)
    // and skip-index commits with a later finalize
    let w_batch = if extra && r.chance(1, 4) { 3 } else { 0 };
    let mut in_batch = false;
    let mut skipped_indexes = false;
    for _ in 0..n_ops {
        if !st.open {
            ops.push(Op::Open);
            st.open = true;
            st.flush();
            continue;
        }
        let c = r.weighted(&[w_put, w_upd, w_del, w_commit, w_reopen, w_abandon, w_emb, w_check, w_vac, w_doc, w_steer, w_cards, w_batch]);
        match c {
            0 | 6 => {
                let pay = gen_pay(&mut r, &mix, &st);
                st.n += 1;
                let mut spec = PutSpec { pay: Some(pay.clone()), ts: Some(r.range(0, 2_000_000_000) as i64 - 1_000_000_000), ..Default::default() };
                if use_uri && r.chance(2, 3) {
                    // sometimes the same uri is ingested again with a plain put (two active versions)
                    let k = if r.chance(1, 6) { 1 + r.below(st.n) } else { st.n };
                    spec.uri = Some(format!("mv2://doc/{k}"));
                }
                if r.chance(1, 4) {
                    spec.title = Some(format!("Title {}", st.n));
                }
                if r.chance(1, 5) {
                    spec.tags = vec![format!("tag{}", r.below(5))];
                }
                if r.chance(1, 6) {
                    spec.lib_defaults = true;
                }
                if r.chance(1, 3) {
                    spec.instant_index = true;
                }
                if c == 6 {
                    spec.emb = Some((0..dim).map(|_| r.f32() * 2.0 - 1.0).collect());
                }
                st.wal_used += est_wal(&pay);
                let long = matches!(pay.kind, PK::LongText | PK::Structured | PK::Unicode | PK::Text) && pay.len >= 2000;
                st.pending.push(vec![(true, long, long)]);
                if st.wal_used * 4 >= st.wal_size * 3 {
                    // probably auto-checkpointed (or grew); the generator only needs a rough idea
                    if st.wal_used > st.wal_size {
                        st.wal_size *= 2;
                    }
                    st.flush();
                }
                ops.push(Op::Put(spec));
            }
            1 => {
                let t = st.active_targets();
                if t.is_empty() {
                    continue;
                }
                let target = *r.pickv(&t);
                let tgt = st.committed[target as usize];
                let with_payload = tgt.1 || r.chance(1, 2);
                st.n += 1;
                let mut spec = PutSpec::default();
                if with_payload {
                    let pay = gen_pay(&mut r, &mix, &st);
                    st.wal_used += est_wal(&pay);
                    spec.pay = Some(pay);
                } else {
                    st.wal_used += 300;
                }
                if r.chance(1, 3) {
                    spec.title = Some(format!("Updated {}", st.n));
                }
                if r.chance(1, 4) {
                    spec.tags = vec![format!("utag{}", r.below(5))];
                }
                ops.push(Op::Update { target, spec });
                st.pending.push(vec![(true, with_payload, false)]);
                st.pending_tomb.push(target);
            }
            2 => {
                let t = st.active_targets();
                if t.is_empty() {
                    continue;
                }
                let target = *r.pickv(&t);
                st.pending_tomb.push(target);
                st.wal_used += 300;
                ops.push(Op::Delete { target });
            }
            3 => {
                ops.push(Op::Commit);
                st.flush();
            }
            4 => {
                ops.push(Op::Close);
                st.open = false;
                st.flush();
            }
            5 => {
                ops.push(Op::Abandon);
                st.open = false;
            }
            7 => ops.push(Op::Check),
            12 => {
                if in_batch {
                    ops.push(Op::EndBatch);
                    in_batch = false;
                } else if skipped_indexes && r.chance(1, 2) {
                    ops.push(Op::FinalizeIndexes);
                    skipped_indexes = false;
                } else if r.chance(1, 3) {
                    ops.push(Op::CommitSkipIndexes);
                    st.flush();
                    skipped_indexes = true;
                } else {
                    ops.push(Op::BeginBatch(BatchSpec { compression_level: *r.pickv(&[0i32, 1, 3, 9, 19]), disable_auto_checkpoint: r.chance(1, 2), skip_sync: r.chance(2, 3), wal_pre_size: *r.pickv(&[0u64, 0, 100_000, 300_000]) }));
                    in_batch = true;
                }
            }
            11 => {
                st.n += 1;
                let k = r.range(1, 3);
                ops.push(Op::PutCards((0..k).map(|j| crate::cards::gen_card(&mut r, &card_times, st.n * 10 + j)).collect()));
                if r.chance(1, 2) {
                    ops.push(Op::Commit);
                    st.flush();
                }
            }
            10 => {
                // park the log's write head within 48 bytes of (or exactly at) the region end: a
                // calibrating put to the middle, a commit (pending bytes back to zero, head stays),
                // then the steered put; it stays below the 75 % checkpoint threshold
                ops.push(Op::PutSteer { gap: r.range(24_000, 36_000), seed: r.next() });
                ops.push(Op::Commit);
                st.pending.push(vec![(true, false, false)]);
                st.flush();
                ops.push(Op::PutSteer { gap: *r.pickv(&[0u64, 1, 8, 24, 40, 47, 48, 60]), seed: r.next() });
                st.pending.push(vec![(true, false, false)]);
                st.n += 2;
            }
            8 => {
                ops.push(Op::Vacuum);
                st.flush();
            }
            9 => {
                ops.push(Op::Close);
                st.flush();
                ops.push(Op::Doctor(DoctorSpec { time: r.chance(1, 2), lex: r.chance(1, 2), vec: r.chance(1, 2), vacuum: r.chance(1, 3), dry_run: false }));
                ops.push(Op::Open);
                ops.push(Op::Check);
            }
            _ => {}
        }
    }
    // always end with a clean restart and a full comparison
    if st.open {
        if r.chance(1, 2) {
            ops.push(Op::Commit);
        }
        ops.push(if allow_abandon && r.chance(1, 3) { Op::Abandon } else { Op::Close });
    }
    ops.push(Op::Open);
    ops.push(Op::Check);
    ops.push(Op::Close);
    ops.push(Op::OpenRo);
    ops.push(Op::Check);
    ops.push(Op::Close);
    Scenario { seed, env, ops, fault: Default::default(), fault_ops: vec![], post: None, medium: None, knobs: Default::default() }
}

// ---------------------------------------------------------------------------------------------
// Corpus + query-battery generator (C08–C16, C28)

pub const PLANT: &[&str] = &["xovrilk", "plimdor", "grazzup", "vontrek", "shulbim", "kwistom"];

pub struct CorpusCfg {
    pub max_docs: usize,
    pub with_vec: bool,
    pub with_images: bool,
    pub mutate: bool,
}

fn battery(r: &mut Rng, n: usize, ts_pool: &[i64], n_docs: usize) -> Vec<Op> {
    let mut ops = Vec::new();
    for _ in 0..n {
        let w1 = r.pick(PLANT).to_string();
        let w2 = r.pick(PLANT).to_string();
        let w3 = r.pick(VOCAB).to_string();
        let query = match r.below(12) {
            0..=3 => w1.clone(),
            4 => format!("({w1} AND {w2})"),
            5 => format!("({w1} OR {w2})"),
            6 => format!("({w1} AND NOT {w2})"),
            7 => format!("({w1} AND tag:red)"),
            8 => format!("({w1} AND track:alpha)"),
            9 => format!("(({w1} OR {w2}) AND NOT {w3})"),
            10 => format!("\"{w1} {w2}\""),
            _ => w3.clone(),
        };
        let mut s = SearchSpec { query, top_k: *r.pickv(&[1usize, 2, 3, 5, 10, 20, 50]), snippet_chars: r.range(20, 400) as usize, uri: None, scope: None, as_of_frame: None, as_of_ts: None, no_sketch: r.chance(1, 2) };
        match r.below(10) {
            0 => s.scope = Some("mv2://a/".to_string()),
            1 => s.uri = Some(format!("mv2://b/{}", r.below(n_docs.max(1) as u64))),
            2 => s.as_of_frame = Some(r.below((n_docs * 2).max(1) as u64)),
            3 => s.as_of_ts = Some(*r.pickv(ts_pool) + r.range(0, 2) as i64 - 1),
            _ => {}
        }
        ops.push(Op::Search(s));
    }
    // timelines
    for _ in 0..(n / 4).max(1) {
        let lim = if r.chance(1, 2) { Some(r.range(1, (n_docs as u64).max(2))) } else { None };
        let since = if r.chance(1, 3) { Some(*r.pickv(ts_pool)) } else { None };
        let until = if r.chance(1, 3) { Some(*r.pickv(ts_pool)) } else { None };
        ops.push(Op::Timeline(TimelineSpec { limit: lim, since, until, reverse: r.chance(1, 2) }));
    }
    ops
}

pub fn gen_corpus(seed: u64, cfg: &CorpusCfg) -> Scenario {
    let mut r = Rng::new(seed, "corpus");
    let env = env_for(seed, &mut r);
    let mut ops = vec![Op::Create];
    let n_docs = 1 + r.below(cfg.max_docs as u64) as usize;
    let ts_pool: Vec<i64> = (0..(2 + r.below(6))).map(|_| r.range(0, 4_000_000) as i64 - 2_000_000).chain([0i64, -1, i64::from(i32::MAX)]).collect();
    let dim = r.range(1, 24) as usize;
    let instant_pm = *r.pickv(&[0u64, 0, 300, 1000]);
    let commit_every = r.range(1, 12);
    let mut n_frames_est = 0u64;
    let mut committed_docs: Vec<String> = Vec::new(); // uris of committed, active, non-chunked documents
    let mut pending_docs: Vec<String> = Vec::new();
    let vec_on = cfg.with_vec && r.chance(3, 4);
    let mut qvecs: Vec<Vec<f32>> = Vec::new();
    for d in 0..n_docs {
        let long = r.chance(1, 6);
        let len = if long { r.range(2400, 6000) } else { r.range(30, 1500) } as usize;
        let mut pay = Pay::new(if long { PK::LongText } else { PK::Text }, len, r.next());
        // plant: each planted word lands in a random subset of documents, once
        for p in PLANT {
            if r.chance(1, 4) {
                pay.plant.push(p.to_string());
            }
        }
        if r.chance(1, 10) && pay.plant.len() >= 2 {
            // an adjacent pair for phrase queries
            let a = pay.plant[0].clone();
            let b = pay.plant[1].clone();
            pay.plant = vec![format!("{a} {b}")];
        }
        let mut spec = PutSpec { pay: Some(pay), ts: Some(*r.pickv(&ts_pool)), ..Default::default() };
        spec.uri = Some(format!("mv2://{}/{d}", if r.chance(1, 2) { "a" } else { "b" }));
        if cfg.mutate && d > 0 && r.chance(1, 10) {
            // re-ingest under a uri that is already in use (plain put, both versions stay active)
            spec.uri = Some(format!("mv2://{}/{}", if r.chance(1, 2) { "a" } else { "b" }, r.below(d as u64)));
        }
        if r.chance(1, 3) {
            spec.tags = vec![r.pick(&["red", "blue"]).to_string()];
        }
        if r.chance(1, 3) {
            spec.track = Some(r.pick(&["alpha", "beta"]).to_string());
        }
        if r.below(1000) < instant_pm {
            spec.instant_index = true;
        }
        if vec_on && !long && r.chance(2, 3) {
            let e: Vec<f32> = match r.below(8) {
                0 => vec![0.0; dim],
                1 => (0..dim).map(|_| 1.0e6 * (r.f32() - 0.5)).collect(),
                2 => (0..dim).map(|_| 1.0e-30 * r.f32()).collect(),
                3 if !qvecs.is_empty() => qvecs[r.below(qvecs.len() as u64) as usize].clone(), // duplicate
                _ => (0..dim).map(|_| r.f32() * 2.0 - 1.0).collect(),
            };
            qvecs.push(e.clone());
            spec.emb = Some(e);
        }
        let chunks_est = if long { (len as u64 / 1100).max(2) } else { 0 };
        if !long {
            pending_docs.push(spec.uri.clone().unwrap());
        }
        n_frames_est += 1 + chunks_est;
        ops.push(Op::Put(spec));
        if cfg.with_images && r.chance(1, 8) && !committed_docs.is_empty() {
            // an extracted image attached to a committed document, with its own timestamp
            let parent = r.pickv(&committed_docs).clone();
            let mut img = PutSpec { pay: Some(Pay::new(PK::Bin, r.range(20, 400) as usize, r.next())), ts: Some(*r.pickv(&ts_pool)), role: 2, parent_uri: Some(parent), ..Default::default() };
            img.uri = Some(format!("mv2://img/{d}"));
            img.mime = Some("image/png".into());
            n_frames_est += 1;
            ops.push(Op::Put(img));
        }
        if r.chance(1, 5) {
            // search while records are still pending (instant index)
            ops.extend(battery(&mut r, 2, &ts_pool, n_docs));
        }
        if cfg.mutate && r.chance(1, 14) {
            // the process dies with records still in the log; the next open replays them on top of
            // the committed indexes
            ops.push(Op::Abandon);
            ops.push(Op::Open);
            ops.push(Op::Check);
            committed_docs.append(&mut pending_docs);
        }
        if (d as u64 + 1) % commit_every == 0 {
            ops.push(Op::Commit);
            committed_docs.append(&mut pending_docs);
            if cfg.mutate && r.chance(1, 3) && !committed_docs.is_empty() {
                let t = committed_docs.swap_remove(r.below(committed_docs.len() as u64) as usize);
                if r.chance(1, 2) {
                    ops.push(Op::DeleteUri { uri: t });
                } else {
                    let mut us = PutSpec::default();
                    if r.chance(1, 2) {
                        let mut p = Pay::new(PK::Text, r.range(30, 900) as usize, r.next());
                        if r.chance(1, 2) {
                            p.plant.push(r.pick(PLANT).to_string());
                        }
                        us.pay = Some(p);
                    }
                    if vec_on && r.chance(1, 3) {
                        us.emb = Some((0..dim).map(|_| r.f32() * 2.0 - 1.0).collect());
                    }
                    if r.chance(1, 2) {
                        committed_docs.push(t.clone());
                    }
                    ops.push(Op::UpdateUri { uri: t, spec: us });
                    n_frames_est += 1;
                }
            }
        }
    }
    ops.push(Op::Commit);
    let nb = 6 + r.below(10) as usize;
    let mut bat = battery(&mut r, nb, &ts_pool, n_docs);
    if vec_on && !qvecs.is_empty() {
        for _ in 0..4 {
            let q: Vec<f32> = if r.chance(1, 3) { qvecs[r.below(qvecs.len() as u64) as usize].clone() } else { (0..dim).map(|_| r.f32() * 2.0 - 1.0).collect() };
            bat.push(Op::SearchVec { q, k: *r.pickv(&[1usize, 2, 5, 10, 1000]) });
        }
        bat.push(Op::SearchVec { q: vec![0.5; dim + 1], k: 3 });
    }
    ops.extend(bat.iter().cloned());
    ops.push(Op::Check);
    ops.push(Op::Close);
    ops.push(Op::Open);
    ops.extend(bat.iter().cloned());
    ops.push(Op::Close);
    ops.push(Op::OpenRo);
    ops.extend(bat.iter().cloned());
    ops.push(Op::Close);
    if r.chance(1, 3) {
        ops.push(Op::Doctor(DoctorSpec { time: r.chance(1, 2), lex: r.chance(1, 2), vec: r.chance(1, 2), vacuum: false, dry_run: false }));
        ops.push(Op::Open);
        ops.extend(bat.iter().cloned());
        ops.push(Op::Check);
        ops.push(Op::Close);
    }
    Scenario { seed, env, ops, fault: Default::default(), fault_ops: vec![], post: None, medium: None, knobs: Default::default() }
}

// ---------------------------------------------------------------------------------------------
// C18: read-only handles — committed + pending state, then a read-only session
pub fn gen_readonly(seed: u64) -> Scenario {
    // Variants drawn from a stream of their own (the main stream's scenarios stay what they were):
    //  - a memory whose first commit never completed (create, puts, process death): lexical index
    //    enabled but no embedded index segments, so a read-only open rebuilds the index in memory;
    //  - a memory left after commit_skip_indexes without finalize_indexes (same in-memory rebuild);
    //  - a memory file larger than the 16 MiB window the read-only open scans for the last footer.
    let mut rv = Rng::new(seed, "readonly-variant");
    let variant = rv.below(16);
    if variant < 3 {
        let mut r = Rng::new(seed, "readonly-uncommitted");
        let env = env_for(seed, &mut r);
        let mut ops = vec![Op::Create];
        if variant == 2 {
            ops.push(Op::BeginBatch(BatchSpec { compression_level: 3, disable_auto_checkpoint: r.chance(1, 2), skip_sync: false, wal_pre_size: 0 }));
        }
        let n = r.range(1, 5);
        for k in 0..n {
            let kind = *r.pickv(&[PK::Text, PK::Text, PK::Bin, PK::LongText]);
            let len = if kind == PK::LongText { r.range(2400, 4000) } else { r.range(20, 900) } as usize;
            let mut p = PutSpec { pay: Some(Pay::new(kind, len, r.next())), ts: Some(k as i64), ..Default::default() };
            p.uri = Some(format!("mv2://first/{k}"));
            ops.push(Op::Put(p));
        }
        if variant == 2 {
            ops.push(Op::CommitSkipIndexes);
            ops.push(Op::EndBatch);
        }
        ops.push(Op::Abandon);
        let q = SearchSpec { query: VOCAB[r.below(VOCAB.len() as u64) as usize].to_string(), top_k: 10, snippet_chars: 120, uri: None, scope: None, as_of_frame: None, as_of_ts: None, no_sketch: r.chance(1, 2) };
        for _ in 0..r.range(1, 3) {
            ops.push(Op::OpenRo);
            ops.push(Op::Check);
            ops.push(Op::Search(q.clone()));
            ops.push(Op::Timeline(TimelineSpec { limit: None, since: None, until: None, reverse: false }));
            if r.chance(1, 2) {
                ops.push(Op::Verify { deep: r.chance(1, 2) });
            }
            ops.push(Op::Close);
        }
        ops.push(Op::Open);
        ops.push(Op::Check);
        ops.push(Op::Close);
        return Scenario { seed, env, ops, fault: Default::default(), fault_ops: vec![], post: None, medium: None, knobs: Default::default() };
    }
    let big = variant == 3;
    let mut r = Rng::new(seed, "readonly");
    let mut s = gen_corpus(seed, &CorpusCfg { max_docs: 12, with_vec: true, with_images: false, mutate: true });
    // cut the corpus scenario before its closing battery and append our own ending
    let cut = s.ops.iter().rposition(|o| matches!(o, Op::Check)).unwrap_or(s.ops.len());
    let bat: Vec<Op> = s.ops[..cut].iter().filter(|o| matches!(o, Op::Search(_) | Op::Timeline(_) | Op::SearchVec { .. })).take(10).cloned().collect();
    s.ops.truncate(cut);
    if big && matches!(s.ops.first(), Some(Op::Create)) {
        // a log region pre-sized to 17 MiB pushes the file beyond the 16 MiB footer-scan window
        // (much cheaper than a 17 MiB payload, which would double the log nine times)
        s.ops.insert(1, Op::BeginBatch(BatchSpec { compression_level: 3, disable_auto_checkpoint: false, skip_sync: false, wal_pre_size: 17 << 20 }));
        s.ops.insert(2, Op::EndBatch);
    }
    // leave some records pending in the log
    for k in 0..r.range(0, 3) {
        let mut p = PutSpec { pay: Some(Pay::new(PK::Text, r.range(20, 600) as usize, r.next())), ts: Some(k as i64), ..Default::default() };
        p.uri = Some(format!("mv2://pending/{k}"));
        s.ops.push(Op::Put(p));
    }
    s.ops.push(if r.chance(2, 3) { Op::Abandon } else { Op::Close });
    for _ in 0..r.range(1, 3) {
        s.ops.push(Op::OpenRo);
        s.ops.push(Op::Check);
        s.ops.extend(bat.iter().cloned());
        if r.chance(1, 2) {
            s.ops.push(Op::Verify { deep: r.chance(1, 2) });
        }
        s.ops.push(Op::Close);
    }
    s.ops.push(Op::Verify { deep: true });
    s.ops.push(Op::Open);
    s.ops.push(Op::Check);
    s.ops.push(Op::Close);
    s
}

// C19: single-file guarantee under failing calls and injected I/O errors
pub fn gen_single_file(seed: u64, max_ops: usize) -> Scenario {
    let mut r = Rng::new(seed, "singlefile");
    let mut s = gen_history(seed, max_ops, true, true);
    match r.below(3) {
        0 => {}
        _ => {
            s.fault.enospc_pm = *r.pickv(&[0u32, 3, 10, 30]);
            s.fault.eio_pm = *r.pickv(&[0u32, 3, 10]);
            s.fault.emfile_pm = *r.pickv(&[0u32, 100, 400]);
            s.fault.short_write_pm = *r.pickv(&[0u32, 50]);
            s.fault.eintr_pm = *r.pickv(&[0u32, 20]);
            s.fault.max_errors = r.range(1, 3) as u32;
            s.fault.fsyncdir_eio_pm = *r.pickv(&[0u32, 0, 150, 400]);
        }
    }
    // sidecar refusal
    if r.chance(1, 2) {
        let names = ["m.mv2-wal", "m.mv2-shm", "m.mv2-lock", "m.mv2-journal", ".m.mv2.wal", ".m.mv2.shm", ".m.mv2.lock", ".m.mv2.journal"];
        let n = r.pick(&names).to_string();
        s.ops.push(Op::PlantSidecar { name: n.clone() });
        s.ops.push(if r.chance(1, 2) { Op::Open } else { Op::OpenRo });
        s.ops.push(Op::RemoveSidecar { name: n });
        s.ops.push(Op::Open);
        s.ops.push(Op::Check);
        s.ops.push(Op::Close);
    }
    s
}

// C24 / C25: capacity tickets and ticket sequences
pub fn gen_tickets(seed: u64, capacity_focus: bool) -> Scenario {
    let mut r = Rng::new(seed, "tickets");
    let env = env_for(seed, &mut r);
    let mut ops = vec![Op::Create];
    let mut seq = 0i64;
    let n = r.range(4, 22);
    let mut bound = false;
    for k in 0..n {
        let c = r.weighted(&[if capacity_focus { 8 } else { 3 }, if capacity_focus { 3 } else { 6 }, 3, 2, 2, if capacity_focus { 0 } else { 3 }, 1]);
        match c {
            0 => {
                let kind = *r.pickv(&[PK::Bin, PK::Bin, PK::Text, PK::LongText, PK::Compressible]);
                let len = match kind {
                    PK::LongText => r.range(2400, 5000),
                    PK::Text => r.range(10, 2000),
                    _ => *r.pickv(&[10u64, 200, 900, 3000, 9000]),
                } as usize;
                let mut p = PutSpec { pay: Some(Pay::new(kind, len, r.next())), ts: Some(k as i64), ..Default::default() };
                p.uri = Some(format!("mv2://t/{k}"));
                ops.push(Op::Put(p));
            }
            1 => {
                // ticket: fresh, stale, equal, negative
                let sq = match r.below(6) {
                    0 => seq,
                    1 => seq - r.range(1, 3) as i64,
                    2 => -(r.range(1, 5) as i64),
                    _ => seq + r.range(1, 4) as i64,
                };
                if capacity_focus {
                    let slack = *r.pickv(&[0u64, 1, 50, 500, 2000, 20_000]);
                    if r.chance(1, 3) {
                        // a payload-less update of an early document as the last frame-producing
                        // step before a restart: the newest frame then owns the oldest bytes
                        ops.push(Op::Update { target: r.below(3), spec: PutSpec { title: Some(format!("retitled {k}")), ..Default::default() } });
                        ops.push(Op::Commit);
                        ops.push(Op::Close);
                        ops.push(Op::Open);
                    }
                    ops.push(Op::TicketRel { seq: sq, slack });
                    if r.chance(1, 2) {
                        // aim at the boundary: a payload a little below / above what is left
                        let kind = *r.pickv(&[PK::Bin, PK::Bin, PK::LongText, PK::Text]);
                        let len = match kind {
                            PK::LongText => r.range(2400, 9000),
                            PK::Text => r.range(400, 2000),
                            _ => if r.chance(1, 2) { slack + 70 + r.below(300) } else { slack.saturating_sub(r.below(200)).max(8) },
                        } as usize;
                        let mut p = PutSpec { pay: Some(Pay::new(kind, len, r.next())), ts: Some(k as i64), ..Default::default() };
                        p.uri = Some(format!("mv2://edge/{k}"));
                        ops.push(Op::Put(p));
                        if r.chance(1, 2) {
                            ops.push(Op::Commit);
                        }
                    }
                } else {
                    ops.push(Op::Ticket { issuer: format!("issuer{}", r.below(3)), seq: sq, capacity: if r.chance(1, 2) { Some(r.range(100_000, 2_000_000)) } else { None } });
                }
                if sq > seq {
                    seq = sq;
                }
            }
            2 => ops.push(Op::Commit),
            3 => {
                ops.push(Op::Close);
                ops.push(Op::Open);
            }
            4 => {
                ops.push(Op::Abandon);
                ops.push(Op::Open);
            }
            5 if r.chance(1, 2) => {
                // the one authentic signed ticket there is (seq 9): on the memory it names, on
                // another one, on an unbound one, untouched or with one field changed
                if !bound && r.chance(2, 3) {
                    ops.push(if r.chance(2, 3) { Op::BindPinned } else { Op::Bind { memory: 7 } });
                    bound = true;
                }
                ops.push(Op::PinnedTicket { tamper: *r.pickv(&[0u8, 0, 0, 1, 2, 3, 4, 5]) });
                if seq < 9 && r.chance(1, 2) {
                    // (whether it was accepted is the executor's business; the generator only keeps
                    // later plain tickets above it half of the time)
                    seq = 9;
                }
            }
            5 => {
                if !bound && r.chance(1, 2) {
                    ops.push(Op::Bind { memory: 7 });
                    bound = true;
                }
                ops.push(Op::SignedTicket { issuer: "memvid.com".into(), seq: seq + r.range(1, 3) as i64, capacity: Some(1 << 30), memory: if r.chance(3, 4) { 7 } else { 8 }, sig_seed: r.next() });
            }
            _ => ops.push(Op::Check),
        }
    }
    ops.push(Op::Commit);
    ops.push(Op::Close);
    ops.push(Op::Open);
    ops.push(Op::Check);
    // the sequence survives reopen: the last accepted number must be rejected again
    ops.push(Op::Ticket { issuer: "late".into(), seq, capacity: None });
    ops.push(Op::Close);
    Scenario { seed, env, ops, fault: Default::default(), fault_ops: vec![], post: None, medium: None, knobs: Default::default() }
}

// ---------------------------------------------------------------------------------------------
// C17: a second writer / a third-party lock probe at random points of a first writer's life
pub fn gen_two_writers(seed: u64, max_ops: usize) -> Scenario {
    let mut r = Rng::new(seed, "two-writers");
    let mut s = gen_history(seed, max_ops, true, true);
    let mut ops: Vec<Op> = Vec::with_capacity(s.ops.len() * 2);
    let p_probe = *r.pickv(&[2u64, 3, 5]);
    for o in std::mem::take(&mut s.ops) {
        let was_mutation = o.is_mutation() || matches!(o, Op::Create | Op::Open);
        ops.push(o);
        if was_mutation && r.chance(1, p_probe) {
            match r.below(10) {
                0..=4 => ops.push(Op::Open2),
                5..=7 => ops.push(Op::LockProbe),
                8 => ops.push(Op::Doctor2),
                _ => {
                    ops.push(Op::Downgrade);
                    ops.push(if r.chance(1, 2) { Op::Open2 } else { Op::LockProbe });
                }
            }
        }
    }
    s.ops = ops;
    if r.chance(1, 4) {
        // ends closed: two read-only handles then contend for the writer role
        if !matches!(s.ops.last(), Some(Op::Close)) {
            s.ops.push(Op::Close);
        }
        let n = r.range(3, 8);
        let steps: Vec<(u8, u8)> = (0..n).map(|_| (r.below(2) as u8, *r.pickv(&[0u8, 0, 0, 1, 2]))).collect();
        s.ops.push(Op::RoContend { steps });
    }
    s
}
