//! Reference model: a few hundred lines, no I/O.
use serde::Serialize;

#[derive(Clone, Copy, Debug, PartialEq, Eq, Serialize)]
pub enum St {
    Active,
    Deleted,
    Superseded,
}

#[derive(Clone, Debug, Serialize)]
pub struct MFrame {
    pub id: u64,
    /// None = the library default `mv2://frames/<id>`
    pub uri: Option<String>,
    pub st: St,
    /// 0 doc, 1 chunk, 2 extracted image
    pub role: u8,
    pub parent: Option<u64>,
    pub supersedes: Option<u64>,
    pub superseded_by: Option<u64>,
    /// None = derived from the clock (any value handed out during the call is acceptable)
    pub ts: Option<i64>,
    /// expected canonical payload; None = not predicted
    #[serde(skip)]
    pub payload: Option<Vec<u8>>,
    pub payload_len: usize,
    #[serde(skip)]
    pub emb: Option<Vec<f32>>,
    pub token: String,
    pub put_op: usize,
    /// number of chunk children (parent only)
    pub chunks: usize,
    /// unstructured chunked text: canonical payload must equal normalize_text(input)
    pub title: Option<String>,
    pub kind: Option<String>,
    pub track: Option<String>,
    /// Some when the put disabled auto-tagging, so tags/labels are exactly what was given
    pub tags: Option<Vec<String>>,
    pub labels: Option<Vec<String>>,
    pub acl_allow: Option<bool>,
    /// the put asked for background enrichment (instant index + embedding): the document's id
    /// must be what the enrichment queue names
    pub queued: bool,
    /// caller-supplied extra metadata (Some = known exactly; chunk children: not predicted)
    pub extra: Option<std::collections::BTreeMap<String, String>>,
    /// payload stored whole (not a chunk parent)
    pub whole: bool,
    pub ts_candidates: Vec<i64>,
}

impl MFrame {
    pub fn uri_str(&self) -> String {
        self.uri.clone().unwrap_or_else(|| format!("mv2://frames/{}", self.id))
    }
}

#[derive(Clone, Debug, Serialize)]
pub enum POp {
    /// parent + chunk children, ids unassigned
    Insert(Vec<MFrame>),
    Tombstone(u64),
}

#[derive(Clone, Debug, Default, Serialize)]
pub struct Model {
    pub exists: bool,
    pub frames: Vec<MFrame>,
    pub pending: Vec<POp>,
    pub vec_dim: Option<u32>,
    /// the history left the domain the model predicts; comparisons are skipped from here on
    pub unpredictable: bool,
    pub ticket_seq: i64,
    pub capacity: Option<u64>,
    /// inside begin_batch(skip_sync): appends since then are not yet durable
    pub batch_skip_sync: bool,
    pub undurable_from: Option<usize>,
    /// how many operations at the tail of `pending` were acknowledged inside a skip_sync batch and
    /// are therefore not yet durable (end_batch, or any commit, makes them so)
    pub undurable_pending: usize,
    pub lex_enabled: bool,
    /// caller-made memory cards in insertion order, with the id the library assigned
    pub cards: Vec<(u64, crate::ops::CardSpec)>,
    /// how many of them a commit has persisted (cards are not logged: they reach the file at commit)
    pub cards_committed: usize,
    /// (canonical name lower-case, kind) of mesh nodes added; edges as (from, to, link) name pairs
    pub mesh_nodes: Vec<(String, u8)>,
    pub mesh_edges: Vec<(String, String, u8)>,
    pub mesh_committed: (usize, usize),
}

impl Model {
    pub fn pending_inserts(&self) -> u64 {
        self.pending
            .iter()
            .map(|p| match p {
                POp::Insert(v) => v.len() as u64,
                _ => 0,
            })
            .sum()
    }
    pub fn next_id(&self) -> u64 {
        self.frames.len() as u64 + self.pending_inserts()
    }
    /// Move pending operations into the committed table, in order (commit, auto-checkpoint,
    /// drop, replay on open).
    pub fn apply_pending(&mut self) {
        let pend = std::mem::take(&mut self.pending);
        for p in pend {
            match p {
                POp::Insert(group) => {
                    let parent_id = self.frames.len() as u64;
                    for (k, mut f) in group.into_iter().enumerate() {
                        f.id = self.frames.len() as u64;
                        if k > 0 {
                            f.parent = Some(parent_id);
                        }
                        if k == 0 {
                            if let Some(old) = f.supersedes {
                                if let Some(o) = self.frames.get_mut(old as usize) {
                                    o.st = St::Superseded;
                                    o.superseded_by = Some(f.id);
                                }
                            }
                        }
                        self.frames.push(f);
                    }
                }
                POp::Tombstone(t) => {
                    if let Some(o) = self.frames.get_mut(t as usize) {
                        o.st = St::Deleted;
                        o.superseded_by = None;
                    }
                }
            }
        }
        // every path that applies the log also writes the in-memory tracks (or, on open, has
        // nothing un-persisted left: see lose_uncommitted_tracks)
        self.tracks_committed();
        self.undurable_pending = 0;
    }
    /// The state a reopen must show: everything acknowledged, applied.
    pub fn recovered(&self) -> Model {
        let mut m = self.clone();
        m.lose_uncommitted_tracks();
        m.apply_pending();
        m
    }
    /// The state a reopen after a power loss must at least show: as `recovered`, without the
    /// operations that were acknowledged inside a skip_sync batch that has not ended.
    pub fn recovered_durable(&self) -> Model {
        let mut m = self.clone();
        m.lose_uncommitted_tracks();
        let keep = m.pending.len().saturating_sub(m.undurable_pending);
        m.pending.truncate(keep);
        m.apply_pending();
        m
    }
    /// As `recovered`, for a candidate whose committed-track marks were set by hand.
    pub fn recovered_keep_commit_marks(&self) -> Model {
        let mut m = self.clone();
        m.lose_uncommitted_tracks();
        let (c, mm) = (m.cards.len(), (m.mesh_nodes.len(), m.mesh_edges.len()));
        m.apply_pending();
        m.cards_committed = c;
        m.mesh_committed = mm;
        m
    }
    /// Commit / drop / automatic checkpoint: the in-memory tracks reach the file.
    pub fn tracks_committed(&mut self) {
        self.cards_committed = self.cards.len();
        self.mesh_committed = (self.mesh_nodes.len(), self.mesh_edges.len());
    }
    /// Process death: cards and mesh entries added since the last commit are gone.
    pub fn lose_uncommitted_tracks(&mut self) {
        self.cards.truncate(self.cards_committed);
        self.mesh_nodes.truncate(self.mesh_committed.0);
        self.mesh_edges.truncate(self.mesh_committed.1);
    }
    pub fn active_committed(&self, id: u64) -> bool {
        self.frames.get(id as usize).is_some_and(|f| f.st == St::Active)
    }
    pub fn digest(&self) -> String {
        let mut h = blake3::Hasher::new();
        for f in &self.frames {
            h.update(format!("{}|{:?}|{:?}|{}|{:?}|{:?}|{:?}|{}\n", f.id, f.uri, f.st, f.role, f.parent, f.supersedes, f.superseded_by, f.token).as_bytes());
        }
        h.update(format!("p{}c{}m{}", self.pending.len(), self.cards.len(), self.mesh_nodes.len()).as_bytes());
        h.finalize().to_hex()[..12].to_string()
    }
}
