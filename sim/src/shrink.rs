//! Minimisation: shrink the operation and fault sequence while the same oracle fails.
use crate::checks::CheckDef;
use crate::coord::eval_many;
use crate::ops::*;
use crate::runner::RunResult;
use std::time::{Duration, Instant};

fn fails_same(r: &Option<RunResult>, prop: &str, oracle: &str, sig: &str) -> bool {
    r.as_ref().is_some_and(|r| r.harness_error.is_none() && r.violations.iter().any(|v| v.oracle == oracle && v.sig == sig && v.props.iter().any(|p| p == prop)))
}

/// Returns the minimised scenario (with the explicit post step from the failing result).
pub fn shrink(def: &CheckDef, start: &Scenario, prop: &str, oracle: &str, sig: &str, budget: Duration) -> Scenario {
    let t0 = Instant::now();
    let timeout = Duration::from_secs(150);
    let mut cur = start.clone();
    // make fault plan explicit is done by the caller (repro carries explicit faults)
    let mut progress = true;
    while progress && t0.elapsed() < budget {
        progress = false;
        // 1. drop chunks of ops, coarse to fine
        let mut chunk = (cur.ops.len() / 2).max(1);
        while chunk >= 1 && t0.elapsed() < budget {
            let mut cands: Vec<Scenario> = Vec::new();
            let mut start_ix = 0;
            while start_ix < cur.ops.len() {
                let end = (start_ix + chunk).min(cur.ops.len());
                let mut c = cur.clone();
                c.ops.drain(start_ix..end);
                // remap fault_ops indices
                c.fault_ops = cur.fault_ops.iter().filter(|i| **i < start_ix || **i >= end).map(|i| if *i >= end { *i - (end - start_ix) } else { *i }).collect();
                if !c.ops.is_empty() {
                    cands.push(c);
                }
                start_ix = end;
            }
            let res = eval_many(def, &cands, timeout);
            let mut accepted = false;
            for (c, r) in cands.into_iter().zip(res.iter()) {
                if fails_same(r, prop, oracle, sig) {
                    // carry over the explicit post step the candidate run found
                    cur = r.as_ref().and_then(|r| r.repro.clone()).unwrap_or(c);
                    progress = true;
                    accepted = true;
                    break;
                }
            }
            if !accepted {
                if chunk == 1 {
                    break;
                }
                chunk /= 2;
            }
        }
        // 2. simplify arguments
        let mut cands: Vec<Scenario> = Vec::new();
        for (i, op) in cur.ops.iter().enumerate() {
            let mut push = |f: &dyn Fn(&mut PutSpec)| {
                let mut c = cur.clone();
                match &mut c.ops[i] {
                    Op::Put(s) => f(s),
                    Op::Update { spec, .. } => f(spec),
                    _ => {}
                }
                if c.ops[i] != cur.ops[i] {
                    cands.push(c);
                }
            };
            match op {
                Op::Put(_) | Op::Update { .. } => {
                    push(&|s| {
                        if let Some(p) = &mut s.pay {
                            if p.len > 8 {
                                p.len /= 2;
                            }
                        }
                    });
                    push(&|s| {
                        if let Some(p) = &mut s.pay {
                            if p.len > 8 {
                                p.len = p.len * 9 / 10;
                            }
                        }
                    });
                    push(&|s| {
                        if let Some(p) = &mut s.pay {
                            if p.kind != PK::Bin && p.kind != PK::Text {
                                p.kind = if p.is_text() { PK::Text } else { PK::Bin };
                            }
                        }
                    });
                    push(&|s| {
                        s.uri = None;
                        s.title = None;
                        s.tags.clear();
                        s.labels.clear();
                        s.kind = None;
                        s.track = None;
                        s.extra.clear();
                    });
                    push(&|s| s.emb = None);
                    push(&|s| s.chunk_embs = None);
                    push(&|s| {
                        s.lib_defaults = false;
                        s.instant_index = false;
                        s.triplets = false;
                    });
                }
                _ => {}
            }
        }
        if !cur.fault.explicit.is_empty() {
            for k in 0..cur.fault.explicit.len() {
                let mut c = cur.clone();
                c.fault.explicit.remove(k);
                cands.push(c);
            }
        }
        if !cands.is_empty() && t0.elapsed() < budget {
            let res = eval_many(def, &cands, timeout);
            for (c, r) in cands.into_iter().zip(res.iter()) {
                if fails_same(r, prop, oracle, sig) {
                    cur = r.as_ref().and_then(|r| r.repro.clone()).unwrap_or(c);
                    progress = true;
                    break;
                }
            }
        }
    }
    cur
}
