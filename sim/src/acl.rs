//! C12: ACL-aware retrieval. A small reference evaluator of the documented policy, the executor of
//! `Op::AclSearch` with its oracles, and the generator of ACL corpora.
use crate::model::St;
use crate::ops::*;
use crate::rng::Rng;
use crate::world::World;
use memvid_core::{AclContext, AclEnforcementMode, AskMode, AskRequest, Memvid, SearchRequest, VecEmbedder};
use std::collections::{BTreeMap, BTreeSet};

fn errs(e: &memvid_core::MemvidError) -> String {
    format!("{e}").chars().take(160).collect()
}

/// Scalars are trimmed, one level of JSON string quoting is removed, and compared
/// case-insensitively; empty = absent.
fn norm(v: Option<&str>) -> Option<String> {
    let t = v?.trim();
    if t.is_empty() {
        return None;
    }
    let u = match serde_json::from_str::<String>(t) {
        Ok(p) => p.trim().to_string(),
        Err(_) => t.to_string(),
    };
    if u.is_empty() { None } else { Some(u.to_ascii_lowercase()) }
}

fn list(meta: &BTreeMap<String, String>, key: &str) -> Result<BTreeSet<String>, ()> {
    let Some(raw) = meta.get(key) else { return Ok(BTreeSet::new()) };
    let vals: Vec<String> = serde_json::from_str(raw).map_err(|_| ())?;
    let mut out = BTreeSet::new();
    for v in vals {
        out.insert(norm(Some(&v)).ok_or(())?);
    }
    Ok(out)
}

pub struct NCtx {
    tenant: String,
    subject: Option<String>,
    roles: BTreeSet<String>,
    groups: BTreeSet<String>,
}

pub fn norm_ctx(c: Option<&AclCtx>) -> Option<NCtx> {
    let c = c?;
    let tenant = norm(c.tenant.as_deref())?;
    Some(NCtx { tenant, subject: norm(c.subject.as_deref()), roles: c.roles.iter().filter_map(|r| norm(Some(r))).collect(), groups: c.groups.iter().filter_map(|r| norm(Some(r))).collect() })
}

/// The documented policy: deny on missing / invalid metadata, deny other tenants, allow public,
/// restricted needs a matching principal, role or group.
pub fn allowed(meta: &BTreeMap<String, String>, c: &NCtx) -> bool {
    let Some(tenant) = norm(meta.get("acl_tenant_id").map(|s| s.as_str())) else { return false };
    let Some(vis) = norm(meta.get("acl_visibility").map(|s| s.as_str())) else { return false };
    let restricted = match vis.as_str() {
        "public" => false,
        "restricted" => true,
        _ => return false,
    };
    let (Ok(roles), Ok(groups), Ok(princ)) = (list(meta, "acl_read_roles"), list(meta, "acl_read_groups"), list(meta, "acl_read_principals")) else { return false };
    if tenant != c.tenant {
        return false;
    }
    if !restricted {
        return true;
    }
    c.subject.as_ref().is_some_and(|s| princ.contains(s)) || c.roles.iter().any(|r| roles.contains(r)) || c.groups.iter().any(|g| groups.contains(g))
}

fn real_ctx(c: &AclCtx) -> AclContext {
    AclContext { tenant_id: c.tenant.clone(), subject_id: c.subject.clone(), roles: c.roles.clone(), group_ids: c.groups.clone() }
}

/// (frame ids in answer order with ranges, context text, other frame ids referred to)
struct Answer {
    hits: Vec<(u64, (usize, usize))>,
    context: String,
    refs: Vec<(&'static str, u64)>,
}

struct NoEmbedder;
impl VecEmbedder for NoEmbedder {
    fn embed_query(&self, _t: &str) -> memvid_core::Result<Vec<f32>> {
        Err(memvid_core::MemvidError::InvalidQuery { reason: "no embedder in the simulation".into() })
    }
    fn embedding_dimension(&self) -> usize {
        0
    }
}

fn run_entry(mem: &mut Memvid, spec: &SearchSpec, ctx: Option<&AclCtx>, enforce: bool, entry: u8, emb: &[f32]) -> Result<Answer, String> {
    let rc = ctx.map(real_ctx);
    let mode = if enforce { AclEnforcementMode::Enforce } else { AclEnforcementMode::Audit };
    match entry {
        0 => {
            let mut rq: SearchRequest = crate::reads::request_of(spec);
            rq.acl_context = rc;
            rq.acl_enforcement_mode = mode;
            let r = mem.search(rq).map_err(|e| errs(&e))?;
            Ok(Answer { hits: r.hits.iter().map(|h| (h.frame_id, h.range)).collect(), context: r.context, refs: vec![] })
        }
        1 => {
            let r = mem.vec_search_with_embedding_acl(&spec.query, emb, spec.top_k, spec.snippet_chars, spec.scope.as_deref(), rc.as_ref(), mode).map_err(|e| errs(&e))?;
            Ok(Answer { hits: r.hits.iter().map(|h| (h.frame_id, h.range)).collect(), context: r.context, refs: vec![] })
        }
        2 => {
            let mut cfg = memvid_core::AdaptiveConfig::default();
            cfg.max_results = spec.top_k.max(1);
            cfg.min_results = 1;
            let r = mem.search_adaptive_acl(&spec.query, emb, cfg, spec.snippet_chars, spec.scope.as_deref(), rc.as_ref(), mode).map_err(|e| errs(&e))?;
            Ok(Answer { hits: r.results.iter().map(|h| (h.frame_id, h.range)).collect(), context: String::new(), refs: vec![] })
        }
        _ => {
            let rq = AskRequest {
                question: spec.query.clone(),
                top_k: spec.top_k,
                snippet_chars: spec.snippet_chars,
                uri: spec.uri.clone(),
                scope: spec.scope.clone(),
                cursor: None,
                start: None,
                end: None,
                context_only: true,
                mode: AskMode::Lex,
                as_of_frame: None,
                as_of_ts: None,
                adaptive: None,
                acl_context: rc,
                acl_enforcement_mode: mode,
            };
            let r = mem.ask::<NoEmbedder>(rq, None).map_err(|e| errs(&e))?;
            let mut refs: Vec<(&'static str, u64)> = Vec::new();
            for c in &r.citations {
                refs.push(("citation", c.frame_id));
            }
            let mut ctx_text = r.retrieval.context.clone();
            for f in &r.context_fragments {
                refs.push(("context fragment", f.frame_id));
                ctx_text.push('\n');
                ctx_text.push_str(&f.text);
            }
            if let Some(a) = &r.answer {
                ctx_text.push('\n');
                ctx_text.push_str(a);
            }
            Ok(Answer { hits: r.retrieval.hits.iter().map(|h| (h.frame_id, h.range)).collect(), context: ctx_text, refs })
        }
    }
}

const ENTRY: [&str; 4] = ["search", "vec_search_with_embedding_acl", "search_adaptive_acl", "ask"];

pub fn exec_acl(w: &mut World, i: usize, op: &Op) -> (bool, bool, Option<String>) {
    let Op::AclSearch { spec, ctx, enforce, entry, emb } = op else { return (false, true, None) };
    if w.mem.is_none() {
        return (false, true, None);
    }
    let mut mem = w.mem.take().unwrap();
    let name = ENTRY[(*entry as usize).min(3)];
    let nctx = norm_ctx(ctx.as_ref());
    let r = run_entry(&mut mem, spec, ctx.as_ref(), *enforce, *entry, emb);
    let mut v: Vec<(&'static str, String)> = Vec::new();
    w.probes_extra("acl_calls", 1);
    let out = match r {
        Err(e) => {
            if *enforce && nctx.is_none() {
                w.probes_extra("acl_enforce_without_tenant_rejected", 1);
            }
            (false, false, Some(e))
        }
        Ok(ans) => {
            if *enforce && nctx.is_none() {
                v.push(("enforce-needs-tenant", format!("{name} with mode Enforce and {} succeeded ({} hits)", if ctx.is_none() { "no caller context" } else { "a context without tenant" }, ans.hits.len())));
            }
            if *enforce {
                if let Some(c) = &nctx {
                    w.probes_extra("acl_enforce_answers", 1);
                    // every frame referred to must be allowed: by the metadata the file stores for it
                    // and, for frames whose metadata the caller supplied, by what the caller supplied
                    let mut named: Vec<(&'static str, u64)> = ans.hits.iter().map(|h| ("hit", h.0)).collect();
                    named.extend(ans.refs.iter().cloned());
                    for (what, id) in named {
                        let stored = mem.frame_by_id(id).map(|f| f.extra_metadata).unwrap_or_default();
                        if !allowed(&stored, c) {
                            v.push(("no-denied-frame", format!("{name} (Enforce, tenant {:?}): {what} names frame {id} whose stored ACL metadata {:?} denies the caller", c.tenant, stored)));
                            break;
                        }
                        if !w.model.unpredictable && w.model.pending.is_empty() {
                            if let Some(given) = w.model.frames.get(id as usize).and_then(|f| f.extra.as_ref()) {
                                if !allowed(given, c) {
                                    v.push(("no-denied-frame", format!("{name} (Enforce, tenant {:?}): {what} names frame {id}; the ACL metadata given at put time {:?} denies the caller (stored now: {:?})", c.tenant, given, stored)));
                                    break;
                                }
                            }
                        }
                        w.probes_extra("acl_allowed_refs_checked", 1);
                    }
                    // the context text carries no denied frame's unique token
                    if !ans.context.is_empty() && !w.model.unpredictable {
                        for f in w.model.frames.iter().filter(|f| f.st == St::Active && !f.token.is_empty() && f.role == 0 && f.chunks == 0) {
                            if let Some(given) = &f.extra {
                                if !allowed(given, c) && ans.context.contains(&f.token) {
                                    v.push(("context-free-of-denied-text", format!("{name} (Enforce): the returned context contains the token of frame {} which the caller may not read", f.id)));
                                    break;
                                }
                            }
                        }
                    }
                    if ans.hits.is_empty() {
                        w.probes_extra("acl_enforce_empty", 1);
                    } else {
                        w.probes_extra("acl_enforce_nonempty", 1);
                    }
                }
            } else if ctx.is_some() {
                // Audit with a context answers exactly like no context at all
                match run_entry(&mut mem, spec, None, false, *entry, emb) {
                    Ok(base) => {
                        w.probes_extra("acl_audit_compares", 1);
                        if base.hits != ans.hits {
                            v.push(("audit-equals-no-context", format!("{name}: Audit with a caller context returned {:?}, without context {:?}", ans.hits.iter().take(8).collect::<Vec<_>>(), base.hits.iter().take(8).collect::<Vec<_>>())));
                        }
                    }
                    Err(e) => v.push(("audit-equals-no-context", format!("{name}: Audit with a caller context succeeded, without context it failed: {e}"))),
                }
            }
            (true, false, None)
        }
    };
    w.mem = Some(mem);
    for (o, m) in v {
        w.viol(&["C12"], o, m, i);
    }
    out
}

// ---------------------------------------------------------------------------------------------
// generator

const TENANTS: &[&str] = &["tenant-a", "tenant-b"];
// The three namespaces overlap on purpose ("admin" is a role, a group and a subject id; "eng" and
// "ops" likewise): a role grant must not be satisfied by a same-named group or subject.
const ROLES: &[&str] = &["admin", "analyst", "viewer", "eng"];
const GROUPS: &[&str] = &["eng", "ops", "admin"];
const USERS: &[&str] = &["user-1", "user-2", "admin", "ops"];

fn dress(r: &mut Rng, s: &str) -> String {
    // the encodings the policy documents as equivalent: case, padding, one level of JSON quoting
    match r.below(6) {
        0 => s.to_ascii_uppercase(),
        1 => format!("  {s} "),
        2 => format!("\"{s}\""),
        3 => format!("\"{}\"", s.to_ascii_uppercase()),
        _ => s.to_string(),
    }
}

fn json_list(r: &mut Rng, pool: &[&str]) -> String {
    let mut v: Vec<String> = Vec::new();
    for p in pool {
        if r.chance(1, 2) {
            v.push(if r.chance(1, 4) { p.to_ascii_uppercase() } else { p.to_string() });
        }
    }
    serde_json::to_string(&v).unwrap()
}

fn gen_meta(r: &mut Rng) -> BTreeMap<String, String> {
    let mut m = BTreeMap::new();
    let class = r.below(12);
    if class == 0 {
        return m; // no ACL metadata at all
    }
    let tenant = r.pick(TENANTS).to_string();
    m.insert("acl_tenant_id".into(), dress(r, &tenant));
    let restricted = r.chance(1, 2);
    m.insert("acl_visibility".into(), dress(r, if restricted { "restricted" } else { "public" }));
    if restricted || r.chance(1, 4) {
        if r.chance(2, 3) {
            m.insert("acl_read_roles".into(), json_list(r, ROLES));
        }
        if r.chance(1, 2) {
            m.insert("acl_read_groups".into(), json_list(r, GROUPS));
        }
        if r.chance(1, 2) {
            m.insert("acl_read_principals".into(), json_list(r, USERS));
        }
    }
    match class {
        1 => {
            m.remove("acl_tenant_id");
        }
        2 => {
            m.remove("acl_visibility");
        }
        3 => {
            m.insert("acl_visibility".into(), r.pick(&["private", "", "publicc", "{}"]).to_string());
        }
        4 => {
            // a list that is not a JSON string array
            let k = r.pick(&["acl_read_roles", "acl_read_groups", "acl_read_principals"]);
            m.insert(k.into(), r.pick(&["eng,ops", "[admin]", "\"admin\"", "[1,2]", "[\"\"]"]).to_string());
        }
        5 => {
            m.insert("acl_tenant_id".into(), r.pick(&["", "   ", "\"\""]).to_string());
        }
        _ => {}
    }
    if r.chance(1, 3) {
        m.insert("acl_policy_version".into(), "1".into());
        m.insert("acl_resource_id".into(), format!("res-{}", r.below(100)));
    }
    m
}

fn gen_ctx(r: &mut Rng) -> Option<AclCtx> {
    if r.chance(1, 10) {
        return None;
    }
    let tenant = match r.below(10) {
        0 => None,
        1 => Some(r.pick(&["", "  ", "\"\""]).to_string()),
        2 => Some("tenant-c".to_string()),
        _ => {
            let t = r.pick(TENANTS).to_string();
            Some(dress(r, &t))
        }
    };
    let mut c = AclCtx { tenant, subject: None, roles: vec![], groups: vec![] };
    if r.chance(2, 3) {
        let u = r.pick(USERS).to_string();
        c.subject = Some(dress(r, &u));
    }
    for x in ROLES {
        if r.chance(1, 3) {
            c.roles.push(dress(r, x));
        }
    }
    for x in GROUPS {
        if r.chance(1, 3) {
            c.groups.push(dress(r, x));
        }
    }
    Some(c)
}

pub fn gen_acl(seed: u64, tier: crate::checks::Tier) -> Scenario {
    let mut r = Rng::new(seed, "acl");
    let env = crate::gen::env_for(seed, &mut r);
    let mut ops = vec![Op::Create];
    let max_docs = if tier == crate::checks::Tier::Quick { 24 } else { 80 };
    let n_docs = 2 + r.below(max_docs) as usize;
    let dim = r.range(2, 12) as usize;
    let vec_on = r.chance(2, 3);
    let commit_every = r.range(1, 10);
    let mut committed: Vec<String> = Vec::new();
    let mut pending: Vec<String> = Vec::new();
    let mut embs: Vec<Vec<f32>> = Vec::new();
    let battery = |r: &mut Rng, n: usize, embs: &Vec<Vec<f32>>| -> Vec<Op> {
        let mut v = Vec::new();
        for _ in 0..n {
            let w1 = r.pick(crate::gen::PLANT).to_string();
            let w2 = r.pick(crate::gen::PLANT).to_string();
            let query = match r.below(6) {
                0 => format!("({w1} OR {w2})"),
                1 => r.pick(VOCAB).to_string(),
                _ => w1,
            };
            let mut spec = SearchSpec { query, top_k: *r.pickv(&[1usize, 3, 5, 10, 30]), snippet_chars: r.range(40, 300) as usize, uri: None, scope: None, as_of_frame: None, as_of_ts: None, no_sketch: r.chance(1, 2) };
            if r.chance(1, 8) {
                spec.scope = Some("mv2://a/".into());
            }
            let entry = if vec_on && !embs.is_empty() { r.weighted(&[5, 2, 2, 3]) as u8 } else { *r.pickv(&[0u8, 0, 3]) };
            let emb = if entry == 1 || entry == 2 { if r.chance(1, 2) { r.pickv(embs).clone() } else { (0..dim).map(|_| r.f32() * 2.0 - 1.0).collect() } } else { vec![] };
            if entry != 0 {
                // these entry points take plain words
                spec.query = spec.query.replace(['(', ')'], "").replace(" OR ", " ");
            }
            if entry == 3 && r.chance(1, 3) {
                // questions that ask() treats as analytical take a different retrieval route
                // (timeline documents with full text instead of ranked search hits)
                let w = spec.query.split_whitespace().next().unwrap_or("xovrilk").to_string();
                let w2 = r.pick(crate::gen::PLANT).to_string();
                spec.query = match r.below(5) {
                    0 => format!("What is the history of {w}?"),
                    1 => format!("{w} versus {w2}"),
                    2 => format!("How has {w} changed over time?"),
                    3 => format!("compare {w} and {w2}"),
                    _ => format!("any changes to {w} throughout"),
                };
            }
            v.push(Op::AclSearch { spec, ctx: gen_ctx(r), enforce: r.chance(2, 3), entry, emb });
        }
        v
    };
    for d in 0..n_docs {
        let long = r.chance(1, 8);
        let len = if long { r.range(2400, 5000) } else { r.range(30, 1200) } as usize;
        let mut pay = Pay::new(if long { PK::LongText } else { PK::Text }, len, r.next());
        for p in crate::gen::PLANT {
            if r.chance(1, 3) {
                pay.plant.push(p.to_string());
            }
        }
        let mut spec = PutSpec { pay: Some(pay), ts: Some(d as i64 * 10), ..Default::default() };
        spec.uri = Some(format!("mv2://{}/{d}", if r.chance(1, 2) { "a" } else { "b" }));
        spec.extra = gen_meta(&mut r);
        spec.instant_index = r.chance(1, 4);
        if vec_on && !long && r.chance(3, 4) {
            let e: Vec<f32> = (0..dim).map(|_| r.f32() * 2.0 - 1.0).collect();
            embs.push(e.clone());
            spec.emb = Some(e);
        }
        if !long {
            pending.push(spec.uri.clone().unwrap());
        }
        ops.push(Op::Put(spec));
        if r.chance(1, 6) {
            ops.extend(battery(&mut r, 2, &embs));
        }
        if (d as u64 + 1) % commit_every == 0 {
            ops.push(Op::Commit);
            committed.append(&mut pending);
            if r.chance(1, 3) && !committed.is_empty() {
                // re-label or re-write a document: the ACL metadata is inherited unless given anew
                let t = committed[r.below(committed.len() as u64) as usize].clone();
                let mut us = PutSpec::default();
                if r.chance(1, 2) {
                    let mut p = Pay::new(PK::Text, r.range(30, 600) as usize, r.next());
                    p.plant.push(r.pick(crate::gen::PLANT).to_string());
                    us.pay = Some(p);
                }
                if r.chance(1, 2) {
                    us.extra = gen_meta(&mut r);
                }
                ops.push(Op::UpdateUri { uri: t, spec: us });
            }
        }
    }
    ops.push(Op::Commit);
    let nb = 6 + r.below(10) as usize;
    let bat = battery(&mut r, nb, &embs);
    ops.extend(bat.iter().cloned());
    ops.push(Op::Check);
    if r.chance(1, 2) {
        ops.push(Op::Close);
    } else {
        ops.push(Op::Abandon);
    }
    ops.push(Op::Open);
    ops.extend(bat.iter().cloned());
    ops.push(Op::Close);
    ops.push(Op::OpenRo);
    ops.extend(bat.iter().cloned());
    ops.push(Op::Close);
    if r.chance(1, 3) {
        ops.push(Op::Doctor(DoctorSpec { time: r.chance(1, 2), lex: true, vec: r.chance(1, 2), vacuum: r.chance(1, 3), dry_run: false }));
        ops.push(Op::Open);
        ops.extend(bat.iter().cloned());
        ops.push(Op::Close);
    }
    Scenario { seed, env, ops, fault: Default::default(), fault_ops: vec![], post: None, medium: None, knobs: Default::default() }
}
