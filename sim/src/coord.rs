//! Coordinator: forks one child per simulated run (the libc shim is process-global, and a
//! run must be a pure function of its scenario), up to N in flight; aggregates evidence;
//! shrinks and writes replay files for violations.
use crate::checks::{CheckDef, Tier};
use crate::ops::Scenario;
use crate::runner::RunResult;
use std::collections::{BTreeMap, BTreeSet};
use std::time::{Duration, Instant};

pub fn nproc() -> usize {
    std::env::var("MEMSIM_JOBS").ok().and_then(|s| s.parse().ok()).unwrap_or_else(|| std::thread::available_parallelism().map(|n| n.get()).unwrap_or(8).min(16))
}

pub fn coord_dir() -> String {
    let base = std::env::var("MEMSIM_SCRATCH").unwrap_or_else(|_| "/dev/shm".to_string());
    format!("{base}/memsim-coord.{}", std::process::id())
}

struct Child {
    pid: i32,
    slot: usize,
    key: u64,
    started: Instant,
    out: String,
}

/// Run `f` in a forked child; the child writes its RunResult JSON to `out` and exits.
fn free_slot(children: &[Child]) -> usize {
    let mut s = 0;
    while children.iter().any(|c| c.slot == s) {
        s += 1;
    }
    s
}

fn spawn(slot: usize, key: u64, out: String, f: &dyn Fn() -> RunResult) -> Child {
    let pid = unsafe { libc::fork() };
    if pid == 0 {
        // Pin the whole simulated world (its actor thread and the dependency's helper threads) to
        // one core: the helpers spin-wait on each other, and with 16 worlds sharing 16 cores that
        // spinning multiplies CPU use per run several times over; on one core a spinner's
        // sched_yield hands the core to the thread it is waiting for.
        if std::env::var("MEMSIM_NO_PIN").is_err() {
            unsafe {
                let ncpu = libc::sysconf(libc::_SC_NPROCESSORS_ONLN).max(1) as usize;
                let mut set: libc::cpu_set_t = std::mem::zeroed();
                let base: usize = std::env::var("MEMSIM_PIN_BASE").ok().and_then(|s| s.parse().ok()).unwrap_or(0);
                libc::CPU_SET((slot + base) % ncpu, &mut set);
                libc::sched_setaffinity(0, std::mem::size_of::<libc::cpu_set_t>(), &set);
            }
        }
        // The simulated disk is finite: no file of this world grows beyond 256 MiB (a write or
        // truncate past that fails with EFBIG, which the code under test sees as an I/O error).
        // Without the bound a damaged length field can make open / doctor extend the memory by
        // tens of gigabytes on the tmpfs that backs the scratch directories.
        unsafe {
            libc::signal(libc::SIGXFSZ, libc::SIG_IGN);
            let cap: u64 = std::env::var("MEMSIM_FSIZE_MB").ok().and_then(|s| s.parse().ok()).unwrap_or(256) << 20;
            let lim = libc::rlimit { rlim_cur: cap, rlim_max: cap };
            libc::setrlimit(libc::RLIMIT_FSIZE, &lim);
        }
        // child: fresh scratch root, TMPDIR on tmpfs so that Tantivy's work dirs are too
        let root = crate::runner::scratch_root();
        let _ = std::fs::create_dir_all(format!("{root}/tmp"));
        std::env::set_var("TMPDIR", format!("{root}/tmp"));
        let res = std::panic::catch_unwind(std::panic::AssertUnwindSafe(f));
        crate::shim::stop();
        crate::shim::env_stop();
        crate::shim::set_sim_thread(false);
        let res = match res {
            Ok(r) => r,
            Err(p) => {
                let msg = p.downcast_ref::<String>().cloned().or_else(|| p.downcast_ref::<&str>().map(|s| s.to_string())).unwrap_or_default();
                RunResult { seed: key, harness_error: Some(format!("harness panic: {msg}")), ..Default::default() }
            }
        };
        let _ = std::fs::write(&out, serde_json::to_vec(&res).unwrap());
        let _ = std::fs::remove_dir_all(&root);
        unsafe { libc::_exit(0) };
    }
    Child { pid, slot, key, started: Instant::now(), out }
}

fn reap(children: &mut Vec<Child>, block: bool, timeout: Duration) -> Vec<(u64, Option<RunResult>, String)> {
    let mut done = Vec::new();
    loop {
        let mut status = 0i32;
        let flags = if block && done.is_empty() { 0 } else { libc::WNOHANG };
        // poll with a short sleep instead of blocking forever, so that the watchdog can fire
        let pid = unsafe { libc::waitpid(-1, &mut status, libc::WNOHANG | flags) };
        if pid > 0 {
            if let Some(ix) = children.iter().position(|c| c.pid == pid) {
                let c = children.remove(ix);
                let res: Option<RunResult> = std::fs::read(&c.out).ok().and_then(|b| serde_json::from_slice(&b).ok());
                let _ = std::fs::remove_file(&c.out);
                let how = if libc::WIFSIGNALED(status) { format!("signal {}", libc::WTERMSIG(status)) } else { format!("exit {}", libc::WEXITSTATUS(status)) };
                // the child's scratch directory, in case it died before cleaning up
                let base = std::env::var("MEMSIM_SCRATCH").unwrap_or_else(|_| "/dev/shm".to_string());
                let _ = std::fs::remove_dir_all(format!("{base}/memsim.{pid}"));
                done.push((c.key, res, how));
            }
            continue;
        }
        // watchdog
        let now = Instant::now();
        for c in children.iter() {
            if now.duration_since(c.started) > timeout {
                unsafe { libc::kill(c.pid, libc::SIGKILL) };
            }
        }
        if !done.is_empty() || !block || children.is_empty() {
            break;
        }
        std::thread::sleep(Duration::from_millis(2));
    }
    done
}

/// Evaluate scenarios in parallel; returns results in input order.
pub fn eval_many(def: &CheckDef, scns: &[Scenario], timeout: Duration) -> Vec<Option<RunResult>> {
    let dir = coord_dir();
    let _ = std::fs::create_dir_all(&dir);
    let mut out: Vec<Option<RunResult>> = vec![None; scns.len()];
    let mut children: Vec<Child> = Vec::new();
    let mut next = 0usize;
    let jobs = nproc();
    while next < scns.len() || !children.is_empty() {
        while next < scns.len() && children.len() < jobs {
            let scn = scns[next].clone();
            let path = format!("{dir}/e{next}.json");
            let run = def.run;
            let id = def.id;
            let explore = std::env::var("MEMSIM_EXPLORE").is_ok();
            let slot = free_slot(&children);
            children.push(spawn(slot, next as u64, path, &move || run(&scn, id, explore)));
            next += 1;
        }
        for (k, r, _how) in reap(&mut children, true, timeout) {
            out[k as usize] = r;
        }
    }
    out
}

pub struct Agg {
    pub evaluations: u64,
    pub nontrivial_classes: BTreeSet<String>,
    pub classes: BTreeSet<String>,
    pub probes: BTreeMap<String, u64>,
    pub faults: BTreeMap<String, u64>,
    pub sim_seconds: f64,
    pub tracked: u64,
    pub images: u64,
    pub states: BTreeSet<String>,
    pub inconclusive: u64,
    pub crashed_children: Vec<(u64, String)>,
    pub harness_errors: Vec<(u64, String)>,
    pub samples: Vec<serde_json::Value>,
    pub violating: Vec<RunResult>,
    pub unknown_violating: u64,
    pub first_seed: u64,
    pub last_seed: u64,
    pub wall_s: f64,
}

pub fn explore(def: &CheckDef, tier: Tier, base_seed: u64, known: &[String]) -> Agg {
    let dir = coord_dir();
    let _ = std::fs::create_dir_all(&dir);
    let budget = Duration::from_secs(std::env::var("MEMSIM_BUDGET_S").ok().and_then(|s| s.parse().ok()).unwrap_or(match tier {
        Tier::Quick => def.quick_s,
        Tier::Thorough => def.thorough_s,
    }));
    // Quick tier: a fixed number of seeds starting at VERIF_SEED, so that the explored set does not
    // depend on machine load (the wall-clock budget, three times the nominal one, is only a
    // backstop and can only shorten the set). Thorough tier: as many seeds as fit in the budget.
    let env_budget = std::env::var("MEMSIM_BUDGET_S").is_ok();
    let max_runs: u64 = std::env::var("MEMSIM_MAX_RUNS").ok().and_then(|s| s.parse().ok()).unwrap_or(if tier == Tier::Quick && !env_budget { crate::checks::quick_runs(def.id) } else { u64::MAX });
    let mult: u32 = std::env::var("MEMSIM_BACKSTOP_MULT").ok().and_then(|s| s.parse().ok()).unwrap_or(3);
    let budget = if tier == Tier::Quick && !env_budget { budget * mult } else { budget };
    let timeout = Duration::from_secs(match tier {
        Tier::Quick => 400,
        Tier::Thorough => 900,
    });
    let t0 = Instant::now();
    let mut agg = Agg {
        evaluations: 0,
        nontrivial_classes: BTreeSet::new(),
        classes: BTreeSet::new(),
        probes: BTreeMap::new(),
        faults: BTreeMap::new(),
        sim_seconds: 0.0,
        tracked: 0,
        images: 0,
        states: BTreeSet::new(),
        inconclusive: 0,
        crashed_children: Vec::new(),
        harness_errors: Vec::new(),
        samples: Vec::new(),
        violating: Vec::new(),
        unknown_violating: 0,
        first_seed: base_seed,
        last_seed: base_seed,
        wall_s: 0.0,
    };
    let mut children: Vec<Child> = Vec::new();
    let mut next = 0u64;
    let jobs = nproc();
    loop {
        let time_left = t0.elapsed() < budget;
        // stop launching once a few violations are in hand (shrinking needs the time)
        let sweep = std::env::var("MEMSIM_SWEEP").is_ok();
        let launch = time_left && next < max_runs && (sweep || agg.unknown_violating < 3);
        while launch && children.len() < jobs && next < max_runs {
            let seed = base_seed.wrapping_add(next);
            let path = format!("{dir}/r{seed}.json");
            let gen = def.gen;
            let run = def.run;
            let id = def.id;
            let slot = free_slot(&children);
            children.push(spawn(slot, seed, path, &move || {
                let scn = gen(seed, tier);
                run(&scn, id, true)
            }));
            agg.last_seed = seed;
            next += 1;
        }
        if children.is_empty() {
            break;
        }
        for (seed, r, how) in reap(&mut children, true, timeout) {
            match r {
                Some(r) => {
                    if let Some(e) = &r.harness_error {
                        agg.harness_errors.push((seed, e.clone()));
                        continue;
                    }
                    agg.evaluations += r.evals.max(1);
                    if r.classes.is_empty() {
                        agg.classes.insert(r.class.clone());
                        if r.nontrivial {
                            agg.nontrivial_classes.insert(r.class.clone());
                        }
                    } else {
                        for c in &r.classes {
                            agg.classes.insert(c.clone());
                            agg.nontrivial_classes.insert(c.clone());
                        }
                    }
                    for (k, v) in &r.probes {
                        *agg.probes.entry(k.clone()).or_default() += v;
                    }
                    for (k, v) in &r.faults_fired {
                        *agg.faults.entry(k.clone()).or_default() += v;
                    }
                    agg.sim_seconds += r.sim_seconds;
                    agg.tracked += r.tracked_syscalls;
                    agg.images += r.images;
                    for s in &r.states {
                        if agg.states.len() < 200_000 {
                            agg.states.insert(s.clone());
                        }
                    }
                    if r.inconclusive {
                        agg.inconclusive += 1;
                    }
                    if agg.samples.len() < 4 {
                        if let Some(s) = &r.sample {
                            agg.samples.push(s.clone());
                        }
                    }
                    if !r.violations.is_empty() {
                        let has_unknown = r.violations.iter().any(|v| !known.contains(&crate::evidence::signature(def.id, &v.oracle, &v.sig)));
                        if has_unknown {
                            agg.unknown_violating += 1;
                        }
                        // keep every run with an unknown violation, and one run per known signature
                        let new_sig = r.violations.iter().any(|v| {
                            let s = crate::evidence::signature(def.id, &v.oracle, &v.sig);
                            !agg.violating.iter().any(|o: &RunResult| o.violations.iter().any(|w| crate::evidence::signature(def.id, &w.oracle, &w.sig) == s))
                        });
                        if has_unknown || new_sig {
                            agg.violating.push(r);
                        }
                    }
                }
                None => agg.crashed_children.push((seed, how)),
            }
        }
    }
    agg.violating.sort_by_key(|r| r.seed);
    agg.wall_s = t0.elapsed().as_secs_f64();
    let _ = std::fs::remove_dir_all(&dir);
    agg
}
