//! Read-path operations and their oracles (C08–C11, C13–C16, C28).
use crate::model::{Model, St};
use crate::ops::*;
use crate::world::World;
use memvid_core::{Memvid, SearchRequest, SearchResponse, TimelineQuery};
use std::collections::{BTreeMap, BTreeSet};

fn errs(e: &memvid_core::MemvidError) -> String {
    format!("{e}").chars().take(160).collect()
}

pub fn request_of(s: &SearchSpec) -> SearchRequest {
    SearchRequest {
        query: s.query.clone(),
        top_k: s.top_k,
        snippet_chars: s.snippet_chars,
        uri: s.uri.clone(),
        scope: s.scope.clone(),
        cursor: None,
        as_of_frame: s.as_of_frame,
        as_of_ts: s.as_of_ts,
        no_sketch: s.no_sketch,
        acl_context: None,
        acl_enforcement_mode: Default::default(),
    }
}

/// Minimal boolean query language used by the generator: the reference semantics the property
/// states (substring words/phrases, NOT > AND > OR, case-insensitive field terms).
#[derive(Clone, Debug)]
pub enum Q {
    Word(String),
    Phrase(String),
    Tag(String),
    Track(String),
    And(Vec<Q>),
    Or(Vec<Q>),
    Not(Box<Q>),
}

impl Q {
    pub fn print(&self) -> String {
        match self {
            Q::Word(w) => w.clone(),
            Q::Phrase(p) => format!("\"{p}\""),
            Q::Tag(t) => format!("tag:{t}"),
            Q::Track(t) => format!("track:{t}"),
            Q::And(v) => format!("({})", v.iter().map(|q| q.print()).collect::<Vec<_>>().join(" AND ")),
            Q::Or(v) => format!("({})", v.iter().map(|q| q.print()).collect::<Vec<_>>().join(" OR ")),
            Q::Not(q) => format!("NOT {}", q.print()),
        }
    }
    pub fn eval(&self, text_lower: &str, tags: &[String], track: Option<&str>) -> bool {
        match self {
            Q::Word(w) | Q::Phrase(w) => text_lower.contains(&w.to_ascii_lowercase()),
            Q::Tag(t) => tags.iter().any(|x| x.eq_ignore_ascii_case(t)),
            Q::Track(t) => track.is_some_and(|x| x.eq_ignore_ascii_case(t)),
            Q::And(v) => v.iter().all(|q| q.eval(text_lower, tags, track)),
            Q::Or(v) => v.iter().any(|q| q.eval(text_lower, tags, track)),
            Q::Not(q) => !q.eval(text_lower, tags, track),
        }
    }
    pub fn has_positive_text(&self) -> bool {
        match self {
            Q::Word(_) | Q::Phrase(_) => true,
            Q::Tag(_) | Q::Track(_) => false,
            Q::And(v) | Q::Or(v) => v.iter().any(|q| q.has_positive_text()),
            Q::Not(q) => q.has_positive_text(),
        }
    }
}

/// Parse the generator's own printed form back (only what `print` emits).
pub fn parse_q(s: &str) -> Option<Q> {
    let toks = lex(s);
    let mut i = 0;
    let q = parse_or(&toks, &mut i)?;
    if i == toks.len() { Some(q) } else { None }
}
fn lex(s: &str) -> Vec<String> {
    let mut out = Vec::new();
    let cs: Vec<char> = s.chars().collect();
    let mut i = 0;
    while i < cs.len() {
        let c = cs[i];
        if c.is_whitespace() {
            i += 1;
        } else if c == '(' || c == ')' {
            out.push(c.to_string());
            i += 1;
        } else if c == '"' {
            let mut j = i + 1;
            while j < cs.len() && cs[j] != '"' {
                j += 1;
            }
            out.push(cs[i..(j + 1).min(cs.len())].iter().collect());
            i = j + 1;
        } else {
            let mut j = i;
            while j < cs.len() && !cs[j].is_whitespace() && cs[j] != '(' && cs[j] != ')' {
                j += 1;
            }
            out.push(cs[i..j].iter().collect());
            i = j;
        }
    }
    out
}
fn parse_or(t: &[String], i: &mut usize) -> Option<Q> {
    let mut v = vec![parse_and(t, i)?];
    while *i < t.len() && t[*i] == "OR" {
        *i += 1;
        v.push(parse_and(t, i)?);
    }
    Some(if v.len() == 1 { v.pop().unwrap() } else { Q::Or(v) })
}
fn parse_and(t: &[String], i: &mut usize) -> Option<Q> {
    let mut v = vec![parse_not(t, i)?];
    loop {
        if *i < t.len() && t[*i] == "AND" {
            *i += 1;
            v.push(parse_not(t, i)?);
        } else if *i < t.len() && t[*i] != "OR" && t[*i] != ")" {
            v.push(parse_not(t, i)?); // implicit AND
        } else {
            break;
        }
    }
    Some(if v.len() == 1 { v.pop().unwrap() } else { Q::And(v) })
}
fn parse_not(t: &[String], i: &mut usize) -> Option<Q> {
    if *i < t.len() && t[*i] == "NOT" {
        *i += 1;
        return Some(Q::Not(Box::new(parse_not(t, i)?)));
    }
    let tok = t.get(*i)?.clone();
    *i += 1;
    if tok == "(" {
        let q = parse_or(t, i)?;
        if t.get(*i).map(|s| s.as_str()) != Some(")") {
            return None;
        }
        *i += 1;
        Some(q)
    } else if tok.starts_with('"') {
        Some(Q::Phrase(tok.trim_matches('"').to_string()))
    } else if let Some(x) = tok.strip_prefix("tag:") {
        Some(Q::Tag(x.to_string()))
    } else if let Some(x) = tok.strip_prefix("track:") {
        Some(Q::Track(x.to_string()))
    } else {
        Some(Q::Word(tok))
    }
}

fn whole_word(text_lower: &str, w: &str) -> bool {
    let w = w.to_ascii_lowercase();
    let bytes = text_lower.as_bytes();
    let mut from = 0;
    while let Some(p) = text_lower[from..].find(&w) {
        let s = from + p;
        let e = s + w.len();
        let left_ok = s == 0 || !bytes[s - 1].is_ascii_alphanumeric();
        let right_ok = e >= bytes.len() || !bytes[e].is_ascii_alphanumeric();
        if left_ok && right_ok {
            return true;
        }
        from = s + 1;
        if from >= text_lower.len() {
            break;
        }
    }
    false
}

pub type HitKey = (u64, (usize, usize));

fn keys(r: &SearchResponse) -> Vec<HitKey> {
    r.hits.iter().map(|h| (h.frame_id, h.range)).collect()
}

/// Follow next_cursor until it is absent.
fn paged(mem: &mut Memvid, spec: &SearchSpec, page: usize) -> Result<(Vec<HitKey>, Vec<usize>, usize), String> {
    let mut out = Vec::new();
    let mut totals = Vec::new();
    let mut cursor: Option<String> = None;
    let mut pages = 0;
    loop {
        let mut rq = request_of(spec);
        rq.top_k = page;
        rq.cursor = cursor.clone();
        let r = mem.search(rq).map_err(|e| errs(&e))?;
        totals.push(r.total_hits);
        out.extend(keys(&r));
        pages += 1;
        match r.next_cursor {
            Some(c) if pages < 400 => cursor = Some(c),
            Some(_) => return Err("cursor chain did not end within 400 pages".into()),
            None => break,
        }
    }
    Ok((out, totals, pages))
}

pub fn exec_read(w: &mut World, i: usize, op: &Op) -> (bool, bool, Option<String>) {
    if w.mem.is_none() {
        return (false, true, None);
    }
    // take the handle out of the world for the duration of the call (the oracles need both)
    let mut mem = w.mem.take().unwrap();
    let r = match op {
        Op::Search(spec) => exec_search(w, &mut mem, i, spec),
        Op::Timeline(spec) => exec_timeline(w, &mut mem, i, spec),
        Op::SearchVec { q, k } => exec_vec(w, &mut mem, i, q, *k),
        _ => (false, true, None),
    };
    w.mem = Some(mem);
    r
}

fn committed_clean(m: &Model) -> bool {
    m.pending.is_empty() && !m.unpredictable
}

fn exec_search(w: &mut World, mem: &mut Memvid, i: usize, spec: &SearchSpec) -> (bool, bool, Option<String>) {
    let model = w.model.clone();
    let ro = w.ro;
    let mut v: Vec<(Vec<&'static str>, &'static str, String)> = Vec::new();
    let mut recall_sig = "";
    let mut filter_sig = "";
    let resp = match mem.search(request_of(spec)) {
        Ok(r) => r,
        Err(e) => {
            // an error is a legal answer for malformed queries; the generator only emits well-formed ones
            let msg = errs(&e);
            if !msg.contains("Lex") {
                v.push((vec!["C10"], "search-runs", format!("search({:?}) failed: {msg}", spec.query)));
            }
            for (p, o, m) in v {
                w.viol(&p, o, m, i);
            }
            return (false, false, Some(msg));
        }
    };
    w.probes_extra("searches", 1);
    if !resp.hits.is_empty() {
        w.probes_extra("searches_with_hits", 1);
    }
    let q = parse_q(&spec.query);
    let pending_now = !model.pending.is_empty();
    // ---- C10: every hit is a valid answer
    if resp.hits.len() > spec.top_k.max(1) {
        v.push((vec!["C10"], "hits-at-most-top-k", format!("{} hits for top_k={}", resp.hits.len(), spec.top_k)));
    }
    for (n, h) in resp.hits.iter().enumerate() {
        if h.rank != n + 1 {
            v.push((vec!["C10"], "ranks", format!("hit {} has rank {}", n, h.rank)));
        }
        let fr = match mem.frame_by_id(h.frame_id) {
            Ok(f) => f,
            Err(_) => {
                v.push((vec!["C10", "C28"], "hit-frame-exists", format!("query {:?}: hit names frame {} which does not exist", spec.query, h.frame_id)));
                continue;
            }
        };
        if fr.status != memvid_core::FrameStatus::Active {
            v.push((vec!["C10", "C08"], "hit-frame-active", format!("query {:?}: hit names frame {} with status {:?}", spec.query, h.frame_id, fr.status)));
        }
        if !pending_now && !model.unpredictable {
            if let Some(mf) = model.frames.get(h.frame_id as usize) {
                if mf.st != St::Active {
                    v.push((vec!["C08"], "hit-frame-active-model", format!("query {:?}: hit names frame {} which the model has as {:?}", spec.query, h.frame_id, mf.st)));
                }
            }
        }
        // text / range consistency
        if let (Some(cr), Some(ct)) = (h.chunk_range, h.chunk_text.as_ref()) {
            if h.range.0 < cr.0 || h.range.1 > cr.1 || h.range.0 >= h.range.1 {
                v.push((vec!["C10"], "range-inside-chunk", format!("frame {} range {:?} not inside chunk range {:?}", h.frame_id, h.range, cr)));
            } else {
                let ls = h.range.0 - cr.0;
                let le = h.range.1 - cr.0;
                match ct.get(ls..le) {
                    Some(s) if s == h.text => {}
                    _ => v.push((vec!["C10"], "text-at-range", format!("frame {} hit text is not the chunk content at its range {:?}", h.frame_id, h.range))),
                }
            }
        }
        let text = mem.frame_text_by_id(h.frame_id).unwrap_or_default();
        let text_lower = text.to_ascii_lowercase();
        if !h.text.is_empty() && !text.contains(h.text.as_str()) {
            // chunk children are addressed through their parent's text; accept either
            let in_chunk = h.chunk_text.as_ref().is_some_and(|c| c.contains(h.text.as_str()));
            if !in_chunk {
                v.push((vec!["C10"], "text-in-frame", format!("frame {} hit text {:?} does not occur in the frame's content", h.frame_id, h.text.chars().take(40).collect::<String>())));
            }
        }
        if let Some(q) = &q {
            if !q.eval(&text_lower, &fr.tags, fr.track.as_deref()) {
                let props: Vec<&'static str> = if pending_now { vec!["C10", "C28"] } else { vec!["C10"] };
                v.push((props, "hit-satisfies-query", format!("query {:?}: frame {} ({:?}) does not satisfy it (text {:?}…)", spec.query, h.frame_id, fr.uri, text_lower.chars().take(60).collect::<String>())));
            }
        }
        if let Some(u) = &spec.uri {
            let ok = fr.uri.as_deref().is_some_and(|x| if u.contains('#') { x.eq_ignore_ascii_case(u) } else { x.to_ascii_lowercase().starts_with(&u.to_ascii_lowercase()) });
            if !ok {
                v.push((vec!["C10"], "uri-filter", format!("uri filter {:?}: hit frame {} has uri {:?}", u, h.frame_id, fr.uri)));
            }
        } else if let Some(sc) = &spec.scope {
            if !fr.uri.as_deref().is_some_and(|x| x.starts_with(sc.as_str())) {
                v.push((vec!["C10"], "scope-filter", format!("scope {:?}: hit frame {} has uri {:?}", sc, h.frame_id, fr.uri)));
            }
        }
        // ---- C11
        if let Some(n) = spec.as_of_frame {
            if h.frame_id > n {
                v.push((vec!["C11"], "as-of-frame", format!("as_of_frame={n}: hit frame {}", h.frame_id)));
            }
        }
        if let Some(t) = spec.as_of_ts {
            if fr.timestamp > t {
                v.push((vec!["C11"], "as-of-ts", format!("as_of_ts={t}: hit frame {} has timestamp {}", h.frame_id, fr.timestamp)));
            }
        }
    }
    // ---- C11: a time-travel filter never adds hits
    if (spec.as_of_frame.is_some() || spec.as_of_ts.is_some()) && !resp.hits.is_empty() {
        let mut base = spec.clone();
        base.as_of_frame = None;
        base.as_of_ts = None;
        base.top_k = 10_000;
        if let Ok(br) = mem.search(request_of(&base)) {
            let bset: BTreeSet<u64> = br.hits.iter().map(|h| h.frame_id).collect();
            for h in &resp.hits {
                if !bset.contains(&h.frame_id) {
                    // is the unfiltered search only missing it because of the sketch pre-filter?
                    let mut b2 = base.clone();
                    b2.no_sketch = true;
                    if !base.no_sketch {
                        if let Ok(r2) = mem.search(request_of(&b2)) {
                            if r2.hits.iter().any(|x| x.frame_id == h.frame_id) {
                                filter_sig = "sketch-prefilter-drops-match";
                            }
                        }
                    }
                    v.push((vec!["C11"], "filter-adds-hit", format!("query {:?}: frame {} returned with as_of filter but not without it", spec.query, h.frame_id)));
                    break;
                }
            }
            w.probes_extra("as_of_comparisons", 1);
        }
    }
    // ---- C09: recall for single-word queries (committed state only: the statement is about
    // the searchable text of active frames)
    if let Some(Q::Word(word)) = &q {
        if !pending_now && spec.uri.is_none() && spec.scope.is_none() && spec.as_of_frame.is_none() && spec.as_of_ts.is_none() {
            let n = mem.frame_count() as u64;
            let mut expected: Vec<u64> = Vec::new();
            // weakest reading: a response's top_k counts snippet slices, so a frame that holds the
            // word several times may use several slots; recall is asserted only when the word
            // occurs exactly once in every frame that contains it
            let mut once_each = true;
            for id in 0..n {
                if let Ok(f) = mem.frame_by_id(id) {
                    if f.status != memvid_core::FrameStatus::Active {
                        continue;
                    }
                    let t = mem.frame_text_by_id(id).unwrap_or_default().to_ascii_lowercase();
                    if t.matches(&word.to_ascii_lowercase()).count() > 1 {
                        once_each = false;
                    }
                    if whole_word(&t, word) {
                        expected.push(id);
                    }
                }
            }
            if once_each && !expected.is_empty() && expected.len() <= spec.top_k {
                let got: BTreeSet<u64> = resp.hits.iter().map(|h| h.frame_id).collect();
                let missing: Vec<u64> = expected.iter().copied().filter(|id| !got.contains(id)).collect();
                w.probes_extra("recall_checks", 1);
                if !missing.is_empty() {
                    // classify: is it the sketch pre-filter that dropped the matches?
                    let mut by_sketch = false;
                    if !spec.no_sketch {
                        let mut alt = spec.clone();
                        alt.no_sketch = true;
                        if let Ok(r2) = mem.search(request_of(&alt)) {
                            let got2: BTreeSet<u64> = r2.hits.iter().map(|h| h.frame_id).collect();
                            by_sketch = expected.iter().all(|id| got2.contains(id));
                        }
                    }
                    recall_sig = if by_sketch { "sketch-prefilter-drops-match" } else { "" };
                    v.push((vec!["C09"], "recall", format!("query {:?} (top_k={}, no_sketch={}): {} of {} frames containing the word are missing from the hits: {:?}", word, spec.top_k, spec.no_sketch, missing.len(), expected.len(), missing.iter().take(6).collect::<Vec<_>>())));
                }
            }
        }
    }
    // classification for C16 findings: does some matching frame hold the query word more than
    // once (several snippet slices per document), or do more than 20 frames match (the engine's
    // candidate limit depends on top_k and the cursor)?
    let mut page_sig = "complex-query";
    if let Some(Q::Word(word)) = &q {
        let wl = word.to_ascii_lowercase();
        let n = mem.frame_count() as u64;
        let mut max_occ = 0usize;
        let mut matching = 0usize;
        for id in 0..n {
            if let Ok(f) = mem.frame_by_id(id) {
                if f.status != memvid_core::FrameStatus::Active {
                    continue;
                }
                let t = mem.frame_text_by_id(id).unwrap_or_default().to_ascii_lowercase();
                let occ = t.matches(&wl).count();
                if occ > 0 {
                    matching += 1;
                    max_occ = max_occ.max(occ);
                }
            }
        }
        page_sig = if max_occ > 1 { "several-occurrences-per-frame" } else if matching > 20 { "more-than-20-matching-frames" } else { "" };
    }
    // ---- C16: pagination partitions the stream
    if spec.as_of_frame.is_none() && spec.as_of_ts.is_none() && resp.total_hits > 0 && resp.total_hits <= 200 {
        let page = 1 + (spec.snippet_chars % 10).min(9);
        let mut big = spec.clone();
        big.top_k = resp.total_hits.max(1) + 5;
        match (mem.search(request_of(&big)), paged(mem, spec, page)) {
            (Ok(bigr), Ok((pk, totals, pages))) => {
                w.probes_extra("pagination_checks", 1);
                if pages > 1 {
                    w.probes_extra("pagination_multi_page", 1);
                }
                let bk = keys(&bigr);
                if pk != bk {
                    let d = pk.iter().zip(bk.iter()).position(|(a, b)| a != b).unwrap_or(pk.len().min(bk.len()));
                    v.push((vec!["C16"], "pages-equal-single-request", format!("query {:?} page size {page}: {} hits over {pages} pages vs {} in one request; first difference at position {d}: {:?} vs {:?}", spec.query, pk.len(), bk.len(), pk.get(d), bk.get(d))));
                }
                let mut seen = BTreeSet::new();
                for k in &pk {
                    if !seen.insert(*k) {
                        v.push((vec!["C16"], "page-repeats-hit", format!("query {:?} page size {page}: hit {:?} returned twice", spec.query, k)));
                        break;
                    }
                }
                if totals.iter().any(|t| *t != totals[0]) {
                    v.push((vec!["C16"], "total-hits-constant", format!("query {:?}: total_hits varies across pages: {:?}", spec.query, totals)));
                }
            }
            (Err(e), _) => v.push((vec!["C16"], "pagination-runs", format!("large request failed: {}", errs(&e)))),
            (_, Err(e)) => v.push((vec!["C16"], "pagination-runs", format!("paging failed: {e}"))),
        }
    }
    // ---- C28: the same query on the same committed state answers the same on every handle
    if committed_clean(&model) {
        let key = format!("{}|{}", model.digest(), serde_json::to_string(spec).unwrap_or_default());
        let cur = keys(&resp);
        let how = if ro { "read-only" } else if w.reopened_since_mutation { "reopened" } else { "live" };
        match w.query_log.get(&key).cloned() {
            Some((prev, prev_how)) => {
                w.probes_extra("differential_compares", 1);
                if prev != cur {
                    v.push((vec!["C28"], "same-answer-across-handles", format!("query {:?}: {} handle returned {:?}, {} handle returned {:?}", spec.query, prev_how, prev.iter().take(8).collect::<Vec<_>>(), how, cur.iter().take(8).collect::<Vec<_>>())));
                }
            }
            None => {
                w.query_log.insert(key, (cur, how.to_string()));
            }
        }
    }
    for (p, o, m) in v {
        if o == "recall" {
            w.viol_sig(&p, o, recall_sig, m, i);
        } else if o == "filter-adds-hit" {
            w.viol_sig(&p, o, filter_sig, m, i);
        } else if p.contains(&"C16") {
            w.viol_sig(&p, o, page_sig, m, i);
        } else {
            w.viol(&p, o, m, i);
        }
    }
    (true, false, None)
}

fn exec_timeline(w: &mut World, mem: &mut Memvid, i: usize, spec: &TimelineSpec) -> (bool, bool, Option<String>) {
    let model = w.model.clone();
    let mut v: Vec<(Vec<&'static str>, &'static str, String)> = Vec::new();
    let mut q = TimelineQuery::default();
    q.limit = spec.limit.and_then(std::num::NonZeroU64::new);
    q.since = spec.since;
    q.until = spec.until;
    q.reverse = spec.reverse;
    let got = match mem.timeline(q) {
        Ok(g) => g,
        Err(e) => {
            // on a reopened or read-only handle the answer comes from the persisted time index (C28)
            let persisted = w.ro || w.reopened_since_mutation;
            w.viol(if persisted { &["C15", "C28"] } else { &["C15"] }, "timeline-runs", format!("timeline failed{}: {}", if persisted { " on a handle that reads the persisted time index" } else { "" }, errs(&e)), i);
            return (false, false, Some(errs(&e)));
        }
    };
    w.probes_extra("timelines", 1);
    if model.unpredictable {
        return (true, false, None);
    }
    // expected: active committed frames that are documents (role 0) or extracted images (role 2),
    // ordered by (timestamp, id)
    let mut exp: Vec<(i64, u64)> = model.frames.iter().filter(|f| f.st == St::Active && f.role != 1 && f.ts.is_some()).map(|f| (f.ts.unwrap(), f.id)).collect();
    let all_ts_known = model.frames.iter().filter(|f| f.st == St::Active && f.role != 1).all(|f| f.ts.is_some());
    if !all_ts_known {
        return (true, false, None);
    }
    exp.sort();
    exp.retain(|(t, _)| spec.since.is_none_or(|s| *t >= s) && spec.until.is_none_or(|u| *t <= u));
    if spec.reverse {
        exp.reverse();
    }
    if let Some(l) = spec.limit {
        if l > 0 {
            exp.truncate(l as usize);
        }
    }
    let gotk: Vec<(i64, u64)> = got.iter().map(|e| (e.timestamp, e.frame_id)).collect();
    if gotk != exp {
        let has_images = model.frames.iter().any(|f| f.st == St::Active && f.role == 2);
        let d = gotk.iter().zip(exp.iter()).position(|(a, b)| a != b).unwrap_or(gotk.len().min(exp.len()));
        let sig = if has_images { "with-extracted-images" } else { "" };
        let mut props = vec!["C15"];
        if w.ro || w.reopened_since_mutation {
            props.push("C28");
        }
        if gotk.iter().any(|(_, id)| model.frames.get(*id as usize).is_some_and(|f| f.st != St::Active)) {
            props.push("C08");
        }
        w.viol_sig(&props, "timeline-equals-model", sig, format!("timeline({:?}) returned {} entries, model expects {}; first difference at {d}: got {:?}, expected {:?}", spec, gotk.len(), exp.len(), gotk.get(d), exp.get(d)), i);
    }
    for (p, o, m) in v.drain(..) {
        w.viol(&p, o, m, i);
    }
    (true, false, None)
}

fn l2(a: &[f32], b: &[f32]) -> f64 {
    a.iter().zip(b.iter()).map(|(x, y)| ((*x as f64) - (*y as f64)).powi(2)).sum::<f64>().sqrt()
}

fn exec_vec(w: &mut World, mem: &mut Memvid, i: usize, q: &[f32], k: usize) -> (bool, bool, Option<String>) {
    let model = w.model.clone();
    let ro = w.ro;
    let r = mem.search_vec(q, k);
    w.probes_extra("vec_searches", 1);
    if model.unpredictable || !model.pending.is_empty() {
        return (r.is_ok(), false, None);
    }
    // the model's active embedded set
    let emb: Vec<(u64, &Vec<f32>)> = model.frames.iter().filter(|f| f.st == St::Active).filter_map(|f| f.emb.as_ref().map(|e| (f.id, e))).collect();
    let dim = model.vec_dim;
    match r {
        Err(e) => {
            let dim_mismatch = dim.is_some_and(|d| d as usize != q.len());
            if !dim_mismatch && dim.is_some() && !emb.is_empty() {
                w.viol(&["C13"], "vec-search-runs", format!("search_vec failed on a {}-vector index with a {}-dim query: {}", emb.len(), q.len(), errs(&e)), i);
            }
            (false, false, Some(errs(&e)))
        }
        Ok(hits) => {
            if let Some(d) = dim {
                if d as usize != q.len() && !emb.is_empty() {
                    w.viol(&["C13"], "dimension-rejected", format!("query of dimension {} accepted by an index of dimension {d}", q.len()), i);
                    return (true, false, None);
                }
            }
            w.probes_extra("vec_searches_checked", 1);
            // C14 / C08: membership
            for h in &hits {
                match model.frames.get(h.frame_id as usize) {
                    Some(f) if f.st == St::Active && f.emb.is_some() => {}
                    Some(f) if f.st != St::Active => w.viol(&["C14", "C08"], "vec-hit-active", format!("vector hit names frame {} which is {:?}", h.frame_id, f.st), i),
                    Some(_) => w.viol(&["C14"], "vec-hit-embedded", format!("vector hit names frame {} which was never given an embedding", h.frame_id), i),
                    None => w.viol(&["C14"], "vec-hit-exists", format!("vector hit names unknown frame {}", h.frame_id), i),
                }
            }
            let m = emb.len();
            if hits.len() != k.min(m) {
                w.viol(&["C13", "C14"], "vec-hit-count", format!("search_vec(k={k}) returned {} hits over {m} active embedded frames", hits.len()), i);
            }
            // ordering
            for p in hits.windows(2) {
                if p[1].distance < p[0].distance {
                    w.viol(&["C13"], "vec-order", format!("distances not non-decreasing: {} then {}", p[0].distance, p[1].distance), i);
                    break;
                }
            }
            // exactness: no omitted frame strictly closer than the last hit (f64 brute force)
            if let Some(last) = hits.last() {
                let got: BTreeSet<u64> = hits.iter().map(|h| h.frame_id).collect();
                let last_d = emb.iter().find(|(id, _)| *id == last.frame_id).map(|(_, e)| l2(e, q));
                if let Some(ld) = last_d {
                    for (id, e) in &emb {
                        if !got.contains(id) {
                            let d = l2(e, q);
                            if d < ld * (1.0 - 1e-4) - 1e-6 {
                                w.viol(&["C13"], "vec-exact-nn", format!("frame {id} at distance {d:.6} omitted while frame {} at {ld:.6} was returned", last.frame_id), i);
                                break;
                            }
                        }
                    }
                }
                // reported distances agree with the embeddings given
                for h in hits.iter().take(5) {
                    if let Some((_, e)) = emb.iter().find(|(id, _)| *id == h.frame_id) {
                        let d = l2(e, q);
                        if ((h.distance as f64) - d).abs() > 1e-3 * (1.0 + d) {
                            w.viol(&["C14"], "vec-embedding-as-given", format!("frame {} reported distance {} but its given embedding is at {d:.6}", h.frame_id, h.distance), i);
                            break;
                        }
                    }
                }
            }
            // C28 differential
            let key = format!("{}|vec|{:?}|{k}", model.digest(), q.iter().map(|x| x.to_bits()).collect::<Vec<_>>());
            let cur: Vec<HitKey> = hits.iter().map(|h| (h.frame_id, (h.distance.to_bits() as usize, 0))).collect();
            let how = if ro { "read-only" } else if w.reopened_since_mutation { "reopened" } else { "live" };
            match w.query_log.get(&key).cloned() {
                Some((prev, ph)) => {
                    w.probes_extra("differential_compares", 1);
                    // compare up to distance ties: the multiset of distances and the id sets per distance
                    let norm = |v: &Vec<HitKey>| {
                        let mut x = v.clone();
                        x.sort_by_key(|k| (k.1 .0, k.0));
                        x
                    };
                    if norm(&prev) != norm(&cur) {
                        w.viol(&["C28", "C13"], "vec-same-answer-across-handles", format!("search_vec differs between {ph} and {how} handle: {:?} vs {:?}", prev.iter().map(|k| k.0).collect::<Vec<_>>(), cur.iter().map(|k| k.0).collect::<Vec<_>>()), i);
                    }
                }
                None => {
                    w.query_log.insert(key, (cur, how.to_string()));
                }
            }
            (true, false, None)
        }
    }
}

/// C14: full membership check of the vector index against the model (committed state).
pub fn check_vec_membership(w: &mut World, i: usize, at: &str) {
    let model = w.model.clone();
    if model.unpredictable || !model.pending.is_empty() || w.mem.is_none() {
        return;
    }
    let Some(dim) = model.vec_dim else { return };
    let mut memv = w.mem.take().unwrap();
    let mem = &mut memv;
    let emb: BTreeMap<u64, Vec<f32>> = model.frames.iter().filter(|f| f.st == St::Active).filter_map(|f| f.emb.clone().map(|e| (f.id, e))).collect();
    let q = vec![0.0f32; dim as usize];
    let mut out: Vec<(Vec<&'static str>, &'static str, String)> = Vec::new();
    match mem.search_vec(&q, model.frames.len() + 5) {
        Ok(hits) => {
            let got: BTreeSet<u64> = hits.iter().map(|h| h.frame_id).collect();
            let exp: BTreeSet<u64> = emb.keys().copied().collect();
            if got != exp {
                let missing: Vec<&u64> = exp.difference(&got).take(6).collect();
                let extra: Vec<&u64> = got.difference(&exp).take(6).collect();
                out.push((vec!["C14"], "vec-membership", format!("[{at}] vector index members differ from the active embedded frames: missing {:?}, extra {:?}", missing, extra)));
            }
        }
        Err(e) => {
            if !emb.is_empty() {
                out.push((vec!["C14"], "vec-membership", format!("[{at}] search_vec failed: {}", errs(&e))));
            }
        }
    }
    for (id, e) in emb.iter().take(40) {
        match mem.frame_embedding(*id) {
            Ok(Some(g)) => {
                if &g != e {
                    out.push((vec!["C14"], "vec-embedding-as-given", format!("[{at}] frame {id} embedding differs from the one given")));
                }
            }
            Ok(None) => out.push((vec!["C14"], "vec-embedding-present", format!("[{at}] frame {id} has no embedding in the index"))),
            Err(e) => out.push((vec!["C14"], "vec-embedding-present", format!("[{at}] frame_embedding({id}) failed: {}", errs(&e)))),
        }
    }
    if let Ok(st) = mem.stats() {
        if st.vector_count != emb.len() as u64 && !emb.is_empty() {
            out.push((vec!["C14"], "vector-count", format!("[{at}] stats.vector_count={} but {} active frames were given embeddings", st.vector_count, emb.len())));
        }
    }
    w.mem = Some(memv);
    w.probes_extra("vec_membership_checks", 1);
    for (p, o, m) in out {
        w.viol(&p, o, m, i);
    }
}
