//! Read-path operations and their oracles (filled in per property family).
use crate::ops::*;
use crate::world::World;

pub fn exec_read(_w: &mut World, _i: usize, _op: &Op) -> (bool, bool, Option<String>) {
    (false, true, None)
}
