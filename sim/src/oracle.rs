//! Oracles that compare a real handle with a reference model (pure: they return mismatches).
use crate::model::{Model, St};
use memvid_core::{Frame, FrameRole, FrameStatus, Memvid, MemvidError};
use std::io::Read;

pub struct Mis {
    pub props: Vec<&'static str>,
    pub oracle: &'static str,
    pub msg: String,
}

fn errs(e: &MemvidError) -> String {
    let s = format!("{e}");
    if s.len() > 160 { s[..160].to_string() } else { s }
}
fn role_num(r: FrameRole) -> u8 {
    match r {
        FrameRole::Document => 0,
        FrameRole::DocumentChunk => 1,
        FrameRole::ExtractedImage => 2,
    }
}
fn st_of(s: FrameStatus) -> St {
    match s {
        FrameStatus::Active => St::Active,
        FrameStatus::Superseded => St::Superseded,
        FrameStatus::Deleted => St::Deleted,
    }
}

/// Compare the handle's committed frame table and contents with `model.frames`.
/// Returns (mismatches, frames compared).
pub fn diff_model(mem: &mut Memvid, model: &Model, ro: bool, at: &str) -> (Vec<Mis>, u64) {
    diff_model_ext(mem, model, ro, at, false)
}

impl Mis {
    /// The frame a mismatch is about (None = about the table as a whole).
    pub fn frame_id(&self) -> Option<u64> {
        let i = self.msg.find("] frame ")?;
        let rest = &self.msg[i + 8..];
        let digits: String = rest.chars().take_while(|c| c.is_ascii_digit()).collect();
        digits.parse().ok()
    }
}

/// Durability comparison (C03): every frame of the acknowledged table `a` must be present and
/// equal to its version in `a` or in `b` (the table with the in-flight operation applied, which an
/// un-acknowledged operation may legitimately have reached in part); extra frames are tolerated.
pub fn diff_durable(mem: &mut Memvid, a: &Model, b: Option<&Model>, at: &str) -> Vec<Mis> {
    let (ma, _) = diff_model_ext(mem, a, false, at, true);
    if ma.is_empty() {
        return ma;
    }
    let Some(b) = b else { return ma };
    let (mb, _) = diff_model_ext(mem, b, false, at, true);
    let n_a = a.frames.len() as u64;
    let bad_in_b: Vec<u64> = mb.iter().filter_map(|m| m.frame_id()).collect();
    ma.into_iter()
        .filter(|m| match m.frame_id() {
            // a whole-table complaint against `a` (too few frames) stands on its own
            None => true,
            Some(id) => id >= n_a || bad_in_b.contains(&id),
        })
        .collect()
}

/// `allow_extra`: frames beyond the model's table are tolerated (durability checks: an
/// un-acknowledged operation may have left something behind; what was acknowledged must be there).
pub fn diff_model_ext(mem: &mut Memvid, model: &Model, ro: bool, at: &str, allow_extra: bool) -> (Vec<Mis>, u64) {
    let mut compared = 0u64;
        let mut out: Vec<(Vec<&'static str>, &'static str, String)> = Vec::new();
        let n_real = mem.frame_count();
        let n_model = model.frames.len();
        if n_real != n_model && !(allow_extra && n_real > n_model) {
            out.push((vec!["C01", "C06"], "frame-count", format!("[{at}] frame_count()={n_real}, model has {n_model} committed frames")));
        }
        if !ro && !allow_extra {
            let nf = mem.next_frame_id();
            let exp = model.next_id();
            if nf != exp {
                out.push((vec!["C06"], "next-frame-id", format!("[{at}] next_frame_id()={nf}, model predicts {exp}")));
            }
        }
        for f in model.frames.iter() {
            let fr: Frame = match mem.frame_by_id(f.id) {
                Ok(fr) => fr,
                Err(e) => {
                    out.push((vec!["C01", "C06"], "frame-present", format!("[{at}] frame {} (put by op {}) missing: {}", f.id, f.put_op, errs(&e))));
                    continue;
                }
            };
            compared += 1;
            if fr.id != f.id {
                out.push((vec!["C06"], "frame-id", format!("[{at}] frame_by_id({}) returned id {}", f.id, fr.id)));
            }
            let uri = fr.uri.clone().unwrap_or_default();
            if uri != f.uri_str() {
                out.push((vec!["C01", "C06"], "frame-uri", format!("[{at}] frame {} uri {:?}, model {:?}", f.id, uri, f.uri_str())));
            }
            if st_of(fr.status) != f.st {
                out.push((vec!["C01", "C08"], "frame-status", format!("[{at}] frame {} status {:?}, model {:?}", f.id, fr.status, f.st)));
            }
            if role_num(fr.role) != f.role {
                out.push((vec!["C01", "C06"], "frame-role", format!("[{at}] frame {} role {:?}, model {}", f.id, fr.role, f.role)));
            }
            // the parent link of caller-attached child frames (extracted images) is not part of
            // any listed property; only chunk parentage is predicted
            if fr.parent_id != f.parent && f.role != 2 {
                out.push((vec!["C01", "C06"], "frame-parent", format!("[{at}] frame {} parent {:?}, model {:?}", f.id, fr.parent_id, f.parent)));
            }
            if fr.supersedes != f.supersedes || fr.superseded_by != f.superseded_by {
                out.push((vec!["C01", "C08"], "frame-links", format!("[{at}] frame {} supersedes {:?}/{:?}, model {:?}/{:?}", f.id, fr.supersedes, fr.superseded_by, f.supersedes, f.superseded_by)));
            }
            if let Some(ts) = f.ts {
                if fr.timestamp != ts {
                    out.push((vec!["C01", "C15"], "frame-timestamp", format!("[{at}] frame {} timestamp {}, model {}", f.id, fr.timestamp, ts)));
                }
            }
            if f.st == St::Active {
                if let Some(t) = &f.title {
                    if fr.title.as_ref() != Some(t) {
                        out.push((vec!["C08"], "frame-title", format!("[{at}] frame {} title {:?}, model {:?}", f.id, fr.title, t)));
                    }
                }
                if let Some(tags) = &f.tags {
                    if &fr.tags != tags {
                        out.push((vec!["C08"], "frame-tags", format!("[{at}] frame {} tags {:?}, model {:?}", f.id, fr.tags, tags)));
                    }
                }
                if let Some(x) = &f.extra {
                    // the library may add keys of its own (e.g. extractous_metadata): what the caller
                    // gave must be there unchanged, and no ACL key may appear from nowhere
                    let given_ok = x.iter().all(|(k, v)| fr.extra_metadata.get(k) == Some(v));
                    let no_new_acl = fr.extra_metadata.keys().filter(|k| k.starts_with("acl_")).all(|k| x.contains_key(k));
                    if !(given_ok && no_new_acl) {
                        out.push((vec!["C08"], "frame-extra-metadata", format!("[{at}] frame {} extra metadata {:?}, model {:?}", f.id, fr.extra_metadata, x)));
                    }
                }
                if let (Some(k), true) = (&f.kind, true) {
                    if fr.kind.as_ref() != Some(k) {
                        out.push((vec!["C08"], "frame-kind", format!("[{at}] frame {} kind {:?}, model {:?}", f.id, fr.kind, k)));
                    }
                }
            }
            if f.st != St::Active {
                continue;
            }
            // C14: the embedding given with the frame is the one the index holds for it
            if let Some(e) = &f.emb {
                match mem.frame_embedding(f.id) {
                    Ok(Some(g)) if &g == e => {}
                    Ok(Some(_)) => out.push((vec!["C14", "C01"], "embedding-as-given", format!("[{at}] frame {} embedding differs from the one given", f.id))),
                    Ok(None) => out.push((vec!["C14", "C01"], "embedding-present", format!("[{at}] frame {} was given an embedding; the index has none for it", f.id))),
                    Err(e) => out.push((vec!["C14", "C01"], "embedding-present", format!("[{at}] frame_embedding({}) failed: {}", f.id, errs(&e)))),
                }
            }
            let Some(exp) = &f.payload else { continue };
            // chunk parents whose children are not all active cannot be reassembled; skip those
            if f.chunks > 0 {
                let kids_ok = (1..=f.chunks as u64).all(|k| model.frames.get((f.id + k) as usize).is_some_and(|c| c.st == St::Active && c.parent == Some(f.id)));
                if !kids_ok {
                    continue;
                }
            }
            match mem.frame_canonical_payload(f.id) {
                Ok(got) => {
                    if &got != exp {
                        out.push((vec!["C01", "C07"], "canonical-payload", format!("[{at}] frame {} (op {}, token {}) canonical payload differs: got {} bytes, expected {} bytes; first diff at {:?}", f.id, f.put_op, f.token, got.len(), exp.len(), got.iter().zip(exp.iter()).position(|(a, b)| a != b))));
                    }
                }
                Err(e) => out.push((vec!["C01", "C07"], "canonical-payload", format!("[{at}] frame {} canonical payload unreadable: {}", f.id, errs(&e)))),
            }
            if f.whole {
                match mem.blob_reader(f.id) {
                    Ok(mut rd) => {
                        let mut buf = Vec::new();
                        match rd.read_to_end(&mut buf) {
                            Ok(_) => {
                                if &buf != exp {
                                    out.push((vec!["C07"], "blob-reader", format!("[{at}] frame {} blob reader returned {} bytes, expected {}", f.id, buf.len(), exp.len())));
                                }
                            }
                            Err(e) => out.push((vec!["C07"], "blob-reader", format!("[{at}] frame {} blob reader failed: {e}", f.id))),
                        }
                    }
                    Err(e) => out.push((vec!["C07"], "blob-reader", format!("[{at}] frame {} blob reader unavailable: {}", f.id, errs(&e)))),
                }
                if fr.payload_length > 0 {
                    match mem.read_range(fr.payload_offset, fr.payload_length) {
                        Ok(raw) => {
                            let h = blake3::hash(&raw);
                            if h.as_bytes() != &fr.checksum {
                                out.push((vec!["C07"], "payload-checksum", format!("[{at}] frame {} stored bytes do not match Frame.checksum", f.id)));
                            }
                        }
                        Err(e) => out.push((vec!["C07"], "payload-checksum", format!("[{at}] frame {} stored range unreadable: {}", f.id, errs(&e)))),
                    }
                }
            }
        }
    // C27: caller-made memory cards (the model's list is what a commit has persisted plus, on a
    // live handle, what was added since)
    {
        let got: Vec<String> = mem.memories().cards().iter().filter(|c| c.engine == crate::cards::SIM_ENGINE).map(crate::cards::card_line).collect();
        let exp: Vec<String> = model.cards.iter().map(|(id, s)| crate::cards::spec_line(*id, s)).collect();
        let ok = if allow_extra { got.len() >= exp.len() && got[..exp.len()] == exp[..] } else { got == exp };
        if !ok {
            let d = got.iter().zip(exp.iter()).position(|(a, b)| a != b).unwrap_or(got.len().min(exp.len()));
            out.push((vec!["C27", "C01"], "card-set-unchanged", format!("[{at}] {} caller-made memory cards in the file, {} in the model; first difference at {d}: {:?} vs {:?}", got.len(), exp.len(), got.get(d), exp.get(d))));
        }
    }
    // C08: frame_by_uri returns the newest active version carrying the uri
    if !allow_extra {
        let mut newest: std::collections::BTreeMap<String, u64> = Default::default();
        for f in model.frames.iter().filter(|f| f.st == St::Active) {
            newest.insert(f.uri_str(), f.id);
        }
        for (uri, id) in newest.iter().take(60) {
            match mem.frame_by_uri(uri) {
                Ok(fr) => {
                    if fr.id != *id {
                        out.push((vec!["C08"], "frame-by-uri-newest", format!("[{at}] frame_by_uri({uri:?}) returned frame {} ({:?}), the newest active frame with that uri is {id}", fr.id, fr.status)));
                    }
                }
                Err(e) => out.push((vec!["C08"], "frame-by-uri-newest", format!("[{at}] frame_by_uri({uri:?}) failed: {}; the model has active frame {id} under it", errs(&e)))),
            }
        }
    }
    (out.into_iter().map(|(props, oracle, msg)| Mis { props, oracle, msg }).collect(), compared)
}
