//! The seam: this binary defines the libc entry points itself, so that Rust's
//! std, the `libc`/`nix` crates and every statically linked dependency bind to
//! these definitions. Each forwards to the kernel with `syscall(2)`.
//!
//! Only files under the simulated root directory are tracked, logged and
//! faulted; everything else passes straight through (one atomic load).
#![allow(clippy::missing_safety_doc)]

use libc::{c_char, c_int, c_long, c_uint, c_ulong, c_void, mode_t, off_t, size_t, ssize_t};
use std::cell::Cell;
use std::sync::atomic::{AtomicBool, AtomicU32, AtomicU64, AtomicUsize, Ordering};
use std::sync::Mutex;

// x86_64 syscall numbers
const SYS_READ: c_long = 0;
const SYS_WRITE: c_long = 1;
const SYS_OPEN: c_long = 2;
const SYS_CLOSE: c_long = 3;
const SYS_FSTAT: c_long = 5;
const SYS_LSEEK: c_long = 8;
const SYS_PREAD64: c_long = 17;
const SYS_PWRITE64: c_long = 18;
const SYS_READV: c_long = 19;
const SYS_WRITEV: c_long = 20;
const SYS_NANOSLEEP: c_long = 35;
const SYS_SENDFILE: c_long = 40;
const SYS_FCNTL: c_long = 72;
const SYS_FLOCK: c_long = 73;
const SYS_FSYNC: c_long = 74;
const SYS_FDATASYNC: c_long = 75;
const SYS_FTRUNCATE: c_long = 77;
const SYS_RENAME: c_long = 82;
const SYS_CREAT: c_long = 85;
const SYS_UNLINK: c_long = 87;
const SYS_GETTIMEOFDAY: c_long = 96;
const SYS_TIME: c_long = 201;
const SYS_CLOCK_GETTIME: c_long = 228;
const SYS_CLOCK_NANOSLEEP: c_long = 230;
const SYS_OPENAT: c_long = 257;
const SYS_UNLINKAT: c_long = 263;
const SYS_RENAMEAT: c_long = 264;
const SYS_FALLOCATE: c_long = 285;
const SYS_DUP: c_long = 32;
const SYS_DUP2: c_long = 33;
const SYS_DUP3: c_long = 292;
const SYS_RENAMEAT2: c_long = 316;
const SYS_GETRANDOM: c_long = 318;
const SYS_COPY_FILE_RANGE: c_long = 326;
const SYS_PWRITEV: c_long = 296;

const MAX_FD: usize = 8192;
const DIR_MARK: u32 = u32::MAX;

thread_local! {
    static IN_SHIM: Cell<bool> = const { Cell::new(false) };
    /// virtual time applies only to threads the harness flags
    static SIM_THREAD: Cell<bool> = const { Cell::new(false) };
    static LINEAGE: Cell<u64> = const { Cell::new(0x9E37_79B9_7F4A_7C15) };
    static SPAWN_CTR: Cell<u64> = const { Cell::new(0) };
    static ENT_CTR: Cell<u64> = const { Cell::new(0) };
}

#[allow(clippy::declare_interior_mutable_const)]
const Z32: AtomicU32 = AtomicU32::new(0);
/// fd -> inode id + 1 (0 = untracked, DIR_MARK = the simulated directory itself)
static TRACKED: [AtomicU32; MAX_FD] = [Z32; MAX_FD];

static ACTIVE: AtomicBool = AtomicBool::new(false);
static ROOT_LEN: AtomicUsize = AtomicUsize::new(0);
static mut ROOT_BUF: [u8; 512] = [0; 512];

// ---- environment (clock / entropy) -------------------------------------------------
static ENV_ON: AtomicBool = AtomicBool::new(false);
static ENV_SEED: AtomicU64 = AtomicU64::new(0);
static CLOCK_MONO_NS: AtomicU64 = AtomicU64::new(0);
static CLOCK_REAL_BASE_NS: AtomicU64 = AtomicU64::new(0);
static CLOCK_STATE: AtomicU64 = AtomicU64::new(0);
static CLOCK_READS: AtomicU64 = AtomicU64::new(0);
static CLOCK_JUMPY: AtomicU32 = AtomicU32::new(0);
static CLOCK_START_NS: AtomicU64 = AtomicU64::new(0);
static ENTROPY_DRAWS: AtomicU64 = AtomicU64::new(0);
/// force `Instant`-based budgets to expire: every monotonic read advances by this many ns extra
static CLOCK_EXTRA_STEP_NS: AtomicU64 = AtomicU64::new(0);

#[inline]
pub fn mix64(mut z: u64) -> u64 {
    z = z.wrapping_add(0x9E37_79B9_7F4A_7C15);
    z = (z ^ (z >> 30)).wrapping_mul(0xBF58_476D_1CE4_E5B9);
    z = (z ^ (z >> 27)).wrapping_mul(0x94D0_49BB_1331_11EB);
    z ^ (z >> 31)
}

// ---- op log ------------------------------------------------------------------------

#[derive(Clone, Copy, Debug, PartialEq, Eq, serde::Serialize, serde::Deserialize)]
pub enum Kind {
    /// data write: ino, off, data
    Write,
    /// size change: ino, off = new length
    Trunc,
    /// fsync / fdatasync on a file
    Fsync,
    /// fsync on the directory
    FsyncDir,
    /// directory entry created: name -> ino (O_TRUNC on an existing file is logged as Trunc)
    Create,
    /// rename name -> name2
    Rename,
    Unlink,
    /// harness markers around API calls: off = api op index
    Begin,
    End,
    /// observation only
    Flock,
    OpenExisting,
}

#[derive(Clone, Debug)]
pub struct LogOp {
    pub kind: Kind,
    pub ino: u32,
    pub off: u64,
    pub len: u64,
    pub data: Vec<u8>,
    pub name: String,
    pub name2: String,
    /// ordinal among tracked syscalls (fault addressing); u64::MAX for markers
    pub ord: u64,
}

#[derive(Clone, Copy, Debug, PartialEq, Eq, serde::Serialize, serde::Deserialize)]
pub enum FaultAction {
    /// return -1 with this errno, do nothing
    Errno(i32),
    /// perform at most this many bytes of the data transfer
    Short(u64),
}

#[derive(Clone, Copy, Debug, PartialEq, Eq, serde::Serialize, serde::Deserialize)]
pub enum SysClass {
    Write,
    Read,
    Fsync,
    Trunc,
    OpenCreate,
    Rename,
    Flock,
    Copy,
    Other,
}

#[derive(Clone, Debug, serde::Serialize, serde::Deserialize)]
pub struct FiredFault {
    pub ord: u64,
    pub class: SysClass,
    pub action: FaultAction,
    pub api: u64,
}

/// Probabilistic fault configuration (per run, derived from the seed).
#[derive(Clone, Debug, Default, serde::Serialize, serde::Deserialize)]
pub struct FaultCfg {
    /// per-mille probabilities
    pub short_write_pm: u32,
    pub short_read_pm: u32,
    pub eintr_pm: u32,
    pub enospc_pm: u32,
    pub eio_pm: u32,
    pub emfile_pm: u32,
    /// EIO on fsync of the *directory* (lands right after a rename or an unlink: the commit point
    /// has passed, only its durability is reported as failed)
    #[serde(default)]
    pub fsyncdir_eio_pm: u32,
    /// explicit faults: (ordinal, action) — used by replay / shrinking
    pub explicit: Vec<(u64, FaultAction)>,
    /// stop injecting error-class faults after this many fired
    pub max_errors: u32,
}

pub struct Recorder {
    pub log: Vec<LogOp>,
    pub next_ino: u32,
    /// (st_ino, internal id) of live inodes
    pub live: Vec<(u64, u32)>,
    pub ord: u64,
    pub api: u64,
    pub fault: FaultCfg,
    pub fault_state: u64,
    pub fired: Vec<FiredFault>,
    pub errors_fired: u32,
    pub faults_enabled: bool,
    /// counts of tracked syscalls per class
    pub counts: [u64; 9],
    /// flock observations: (ino, op, result)
    pub capture_data: bool,
}

static REC: Mutex<Option<Recorder>> = Mutex::new(None);

fn root() -> &'static [u8] {
    let n = ROOT_LEN.load(Ordering::Acquire);
    unsafe { std::slice::from_raw_parts(std::ptr::addr_of!(ROOT_BUF) as *const u8, n) }
}

/// Start tracking `dir` (absolute path, no trailing slash). Any previous tracking is dropped.
pub fn start(dir: &str, fault: FaultCfg, fault_seed: u64) {
    stop();
    for t in TRACKED.iter() {
        t.store(0, Ordering::Relaxed);
    }
    let b = dir.as_bytes();
    assert!(b.len() < 500);
    unsafe {
        std::ptr::copy_nonoverlapping(b.as_ptr(), std::ptr::addr_of_mut!(ROOT_BUF) as *mut u8, b.len());
    }
    ROOT_LEN.store(b.len(), Ordering::Release);
    let mut g = REC.lock().unwrap();
    *g = Some(Recorder {
        log: Vec::new(),
        next_ino: 1,
        live: Vec::new(),
        ord: 0,
        api: 0,
        fault,
        fault_state: fault_seed,
        fired: Vec::new(),
        errors_fired: 0,
        faults_enabled: false,
        counts: [0; 9],
        capture_data: true,
    });
    drop(g);
    ACTIVE.store(true, Ordering::Release);
}

pub fn stop() -> Option<Recorder> {
    ACTIVE.store(false, Ordering::Release);
    let mut g = REC.lock().unwrap();
    g.take()
}

pub fn with_rec<T>(f: impl FnOnce(&mut Recorder) -> T) -> Option<T> {
    let prev = IN_SHIM.with(|c| c.replace(true));
    let r = {
        let mut g = REC.lock().unwrap();
        g.as_mut().map(f)
    };
    IN_SHIM.with(|c| c.set(prev));
    r
}

pub fn pause() {
    ACTIVE.store(false, Ordering::Release);
}
pub fn resume() {
    if REC.lock().unwrap().is_some() {
        ACTIVE.store(true, Ordering::Release);
    }
}
pub fn is_active() -> bool {
    ACTIVE.load(Ordering::Acquire)
}

pub fn mark(kind: Kind, api: u64) {
    with_rec(|r| {
        if kind == Kind::Begin {
            r.api = api;
        }
        r.log.push(LogOp {
            kind,
            ino: 0,
            off: api,
            len: 0,
            data: Vec::new(),
            name: String::new(),
            name2: String::new(),
            ord: u64::MAX,
        });
    });
}

pub fn set_faults_enabled(on: bool) {
    with_rec(|r| r.faults_enabled = on);
}

pub fn log_len() -> usize {
    with_rec(|r| r.log.len()).unwrap_or(0)
}

pub fn set_sim_thread(on: bool) {
    SIM_THREAD.with(|c| c.set(on));
}

pub fn reset_thread_lineage(v: u64) {
    LINEAGE.with(|c| c.set(v));
    SPAWN_CTR.with(|c| c.set(0));
    ENT_CTR.with(|c| c.set(0));
}

/// Install the virtual clock and seeded entropy.
pub fn env_start(seed: u64, real_base_s: u64, jumpy: u32) {
    ENV_SEED.store(seed, Ordering::SeqCst);
    let mono0 = 1_000_000_000u64 * (1000 + (mix64(seed ^ 0xC10C) % 100_000));
    CLOCK_MONO_NS.store(mono0, Ordering::SeqCst);
    CLOCK_START_NS.store(mono0, Ordering::SeqCst);
    CLOCK_REAL_BASE_NS.store(real_base_s.wrapping_mul(1_000_000_000), Ordering::SeqCst);
    CLOCK_STATE.store(mix64(seed ^ 0x7157), Ordering::SeqCst);
    CLOCK_READS.store(0, Ordering::SeqCst);
    CLOCK_JUMPY.store(jumpy, Ordering::SeqCst);
    CLOCK_EXTRA_STEP_NS.store(0, Ordering::SeqCst);
    ENTROPY_DRAWS.store(0, Ordering::SeqCst);
    ENV_ON.store(true, Ordering::SeqCst);
}
/// As `env_start`, but with separate seeds for the entropy stream and the clock (C23 varies one
/// dimension at a time).
pub fn env_start_split(entropy_seed: u64, clock_seed: u64, real_base_s: u64, jumpy: u32) {
    env_start(clock_seed, real_base_s, jumpy);
    ENV_SEED.store(entropy_seed, Ordering::SeqCst);
}
pub fn env_stop() {
    ENV_ON.store(false, Ordering::SeqCst);
}
pub fn clock_set_extra_step(ns: u64) {
    CLOCK_EXTRA_STEP_NS.store(ns, Ordering::SeqCst);
}
pub fn clock_reads() -> u64 {
    CLOCK_READS.load(Ordering::SeqCst)
}
pub fn entropy_draws() -> u64 {
    ENTROPY_DRAWS.load(Ordering::SeqCst)
}
pub fn simulated_seconds() -> f64 {
    (CLOCK_MONO_NS.load(Ordering::SeqCst) - CLOCK_START_NS.load(Ordering::SeqCst)) as f64 / 1e9
}
/// Current virtual wall-clock seconds without advancing.
pub fn peek_real_s() -> i64 {
    let mono = CLOCK_MONO_NS.load(Ordering::SeqCst) - CLOCK_START_NS.load(Ordering::SeqCst);
    ((CLOCK_REAL_BASE_NS.load(Ordering::SeqCst).wrapping_add(mono)) / 1_000_000_000) as i64
}

fn clock_advance() -> u64 {
    // every read advances by a PRNG-chosen step; occasionally by a large one
    let s = CLOCK_STATE.fetch_add(0x9E37_79B9_7F4A_7C15, Ordering::SeqCst);
    let r = mix64(s);
    CLOCK_READS.fetch_add(1, Ordering::Relaxed);
    let mut step = 1_000 + (r % 200_000); // 1µs .. 0.2 ms
    let jumpy = CLOCK_JUMPY.load(Ordering::Relaxed) as u64;
    if jumpy > 0 && (r >> 20) % 1000 < jumpy {
        step += ((r >> 32) % 7200) * 1_000_000_000; // up to 2 h
    }
    step += CLOCK_EXTRA_STEP_NS.load(Ordering::Relaxed);
    CLOCK_MONO_NS.fetch_add(step, Ordering::SeqCst) + step
}

/// Real monotonic milliseconds (bypasses the virtual clock).
pub fn real_ms() -> u64 {
    let mut ts: libc::timespec = unsafe { std::mem::zeroed() };
    unsafe { libc::syscall(SYS_CLOCK_GETTIME, libc::CLOCK_MONOTONIC, &mut ts as *mut libc::timespec) };
    ts.tv_sec as u64 * 1000 + ts.tv_nsec as u64 / 1_000_000
}

#[inline]
fn enter() -> bool {
    // returns true if we may intercept (not re-entrant)
    IN_SHIM.with(|c| !c.replace(true))
}
#[inline]
fn leave() {
    IN_SHIM.with(|c| c.set(false));
}

#[inline]
fn tracked(fd: c_int) -> u32 {
    if fd < 0 || fd as usize >= MAX_FD {
        return 0;
    }
    TRACKED[fd as usize].load(Ordering::Acquire)
}

unsafe fn set_errno(e: c_int) {
    *libc::__errno_location() = e;
}

unsafe fn path_bytes<'a>(p: *const c_char) -> &'a [u8] {
    if p.is_null() {
        return &[];
    }
    std::ffi::CStr::from_ptr(p).to_bytes()
}

/// If `path` is a direct child of root, return its file name.
fn child_name(path: &[u8]) -> Option<&[u8]> {
    let r = root();
    if r.is_empty() || path.len() <= r.len() + 1 {
        return None;
    }
    if &path[..r.len()] != r || path[r.len()] != b'/' {
        return None;
    }
    let rest = &path[r.len() + 1..];
    if rest.contains(&b'/') {
        return None;
    }
    Some(rest)
}
fn is_root(path: &[u8]) -> bool {
    let r = root();
    if r.is_empty() {
        return false;
    }
    let p = if path.len() > 1 && path.ends_with(b"/") { &path[..path.len() - 1] } else { path };
    p == r
}

unsafe fn fstat_ino_nlink(fd: c_int) -> (u64, u64, u64) {
    let mut st: libc::stat = std::mem::zeroed();
    let r = libc::syscall(SYS_FSTAT, fd, &mut st as *mut libc::stat);
    if r < 0 {
        return (0, 0, 0);
    }
    (st.st_ino, st.st_nlink as u64, st.st_size as u64)
}

impl Recorder {
    fn ino_for(&mut self, st_ino: u64) -> (u32, bool) {
        for (k, v) in self.live.iter() {
            if *k == st_ino {
                return (*v, false);
            }
        }
        let id = self.next_ino;
        self.next_ino += 1;
        self.live.push((st_ino, id));
        (id, true)
    }
    fn push(&mut self, kind: Kind, ino: u32, off: u64, len: u64, data: Vec<u8>, name: &[u8], name2: &[u8], ord: u64) {
        self.log.push(LogOp {
            kind,
            ino,
            off,
            len,
            data,
            name: String::from_utf8_lossy(name).into_owned(),
            name2: String::from_utf8_lossy(name2).into_owned(),
            ord,
        });
    }
    /// Extra roll for a directory fsync (see FaultCfg::fsyncdir_eio_pm).
    fn decide_dirsync(&mut self) -> Option<FaultAction> {
        if !self.faults_enabled || self.fault.fsyncdir_eio_pm == 0 || self.errors_fired >= self.fault.max_errors {
            return None;
        }
        self.fault_state = self.fault_state.wrapping_add(0x9E37_79B9_7F4A_7C15);
        let roll = (mix64(self.fault_state) % 1000) as u32;
        if roll < self.fault.fsyncdir_eio_pm {
            self.errors_fired += 1;
            let ord = self.ord.saturating_sub(1);
            self.fired.push(FiredFault { ord, class: SysClass::Fsync, action: FaultAction::Errno(libc::EIO), api: self.api });
            Some(FaultAction::Errno(libc::EIO))
        } else {
            None
        }
    }
    /// Decide a fault for the tracked syscall about to happen. Returns (ordinal, action).
    fn decide(&mut self, class: SysClass, len: u64) -> (u64, Option<FaultAction>) {
        let ord = self.ord;
        self.ord += 1;
        self.counts[class as usize] += 1;
        if !self.faults_enabled {
            return (ord, None);
        }
        let mut act = None;
        for (o, a) in self.fault.explicit.iter() {
            if *o == ord {
                act = Some(*a);
            }
        }
        if act.is_none() {
            let f = &self.fault;
            let any = f.short_write_pm | f.short_read_pm | f.eintr_pm | f.enospc_pm | f.eio_pm | f.emfile_pm;
            if any != 0 {
                self.fault_state = self.fault_state.wrapping_add(0x9E37_79B9_7F4A_7C15);
                let r = mix64(self.fault_state);
                let roll = (r % 1000) as u32;
                let r2 = r >> 16;
                let err_ok = self.errors_fired < self.fault.max_errors;
                let f = &self.fault;
                act = match class {
                    SysClass::Write | SysClass::Copy => {
                        if roll < f.short_write_pm && len > 1 {
                            Some(FaultAction::Short(1 + r2 % (len - 1)))
                        } else if roll < f.short_write_pm + f.eintr_pm {
                            Some(FaultAction::Errno(libc::EINTR))
                        } else if err_ok && roll < f.short_write_pm + f.eintr_pm + f.enospc_pm {
                            Some(FaultAction::Errno(libc::ENOSPC))
                        } else if err_ok && roll < f.short_write_pm + f.eintr_pm + f.enospc_pm + f.eio_pm {
                            Some(FaultAction::Errno(libc::EIO))
                        } else {
                            None
                        }
                    }
                    SysClass::Read => {
                        if roll < f.short_read_pm && len > 1 {
                            Some(FaultAction::Short(1 + r2 % (len - 1)))
                        } else if roll < f.short_read_pm + f.eintr_pm {
                            Some(FaultAction::Errno(libc::EINTR))
                        } else if err_ok && roll < f.short_read_pm + f.eintr_pm + f.eio_pm {
                            Some(FaultAction::Errno(libc::EIO))
                        } else {
                            None
                        }
                    }
                    SysClass::Fsync => {
                        if err_ok && roll < f.eio_pm {
                            Some(FaultAction::Errno(libc::EIO))
                        } else {
                            None
                        }
                    }
                    SysClass::Trunc => {
                        if err_ok && roll < f.enospc_pm {
                            Some(FaultAction::Errno(libc::ENOSPC))
                        } else {
                            None
                        }
                    }
                    SysClass::OpenCreate => {
                        if err_ok && roll < f.emfile_pm {
                            Some(FaultAction::Errno(libc::EMFILE))
                        } else if err_ok && roll < f.emfile_pm + f.enospc_pm {
                            Some(FaultAction::Errno(libc::ENOSPC))
                        } else {
                            None
                        }
                    }
                    SysClass::Rename => {
                        if err_ok && roll < f.enospc_pm {
                            Some(FaultAction::Errno(libc::ENOSPC))
                        } else {
                            None
                        }
                    }
                    SysClass::Flock => {
                        if roll < f.eintr_pm {
                            Some(FaultAction::Errno(libc::EINTR))
                        } else {
                            None
                        }
                    }
                    SysClass::Other => None,
                };
            }
        }
        if let Some(a) = act {
            if let FaultAction::Errno(e) = a {
                if e != libc::EINTR {
                    self.errors_fired += 1;
                }
            }
            self.fired.push(FiredFault { ord, class, action: a, api: self.api });
        }
        (ord, act)
    }
}

fn rec_do<T>(f: impl FnOnce(&mut Recorder) -> T) -> Option<T> {
    let mut g = match REC.lock() {
        Ok(g) => g,
        Err(p) => p.into_inner(),
    };
    g.as_mut().map(f)
}

// ---- namespace -----------------------------------------------------------------------

unsafe fn after_open(fd: c_int, name: &[u8], flags: c_int, existed_hint: bool) {
    if fd < 0 || fd as usize >= MAX_FD {
        return;
    }
    let (st_ino, _nl, size) = fstat_ino_nlink(fd);
    rec_do(|r| {
        let (id, fresh) = r.ino_for(st_ino);
        TRACKED[fd as usize].store(id, Ordering::Release);
        let ord = r.ord.saturating_sub(1);
        if fresh && (flags & libc::O_CREAT) != 0 && !existed_hint {
            r.push(Kind::Create, id, 0, 0, Vec::new(), name, &[], ord);
        } else if fresh {
            // a file that existed before tracking started (image contents)
            r.push(Kind::OpenExisting, id, size, 0, Vec::new(), name, &[], ord);
        }
        if (flags & libc::O_TRUNC) != 0 && !fresh {
            r.push(Kind::Trunc, id, 0, 0, Vec::new(), name, &[], ord);
        }
    });
}

unsafe fn file_exists_at(dirfd: c_int, path: *const c_char) -> bool {
    let mut st: libc::stat = std::mem::zeroed();
    libc::syscall(262 /* newfstatat */, dirfd, path, &mut st as *mut libc::stat, 0) == 0
}

unsafe fn do_open(dirfd: c_int, path: *const c_char, flags: c_int, mode: mode_t) -> c_int {
    let raw = |d: c_int| libc::syscall(SYS_OPENAT, d, path, flags, mode as c_uint) as c_int;
    if !ACTIVE.load(Ordering::Acquire) || !enter() {
        return raw(dirfd);
    }
    let p = path_bytes(path);
    let mut name: Option<Vec<u8>> = None;
    let mut is_dir_open = false;
    if !p.is_empty() && p[0] == b'/' {
        if let Some(n) = child_name(p) {
            name = Some(n.to_vec());
        } else if is_root(p) {
            is_dir_open = true;
        }
    } else if dirfd >= 0 && tracked(dirfd) == DIR_MARK && !p.contains(&b'/') {
        if p == b"." {
            is_dir_open = true;
        } else {
            name = Some(p.to_vec());
        }
    }
    if is_dir_open {
        let fd = raw(dirfd);
        if fd >= 0 && (fd as usize) < MAX_FD {
            TRACKED[fd as usize].store(DIR_MARK, Ordering::Release);
        }
        leave();
        return fd;
    }
    let Some(name) = name else {
        leave();
        return raw(dirfd);
    };
    let creating = (flags & libc::O_CREAT) != 0;
    let existed = file_exists_at(dirfd, path);
    let class = if creating && !existed { SysClass::OpenCreate } else { SysClass::Other };
    let (_ord, act) = rec_do(|r| r.decide(class, 0)).unwrap_or((0, None));
    if let Some(FaultAction::Errno(e)) = act {
        set_errno(e);
        leave();
        return -1;
    }
    let fd = raw(dirfd);
    if fd >= 0 {
        after_open(fd, &name, flags, existed);
    }
    leave();
    fd
}

#[no_mangle]
pub unsafe extern "C" fn open(path: *const c_char, flags: c_int, mode: mode_t) -> c_int {
    do_open(libc::AT_FDCWD, path, flags, mode)
}
#[no_mangle]
pub unsafe extern "C" fn open64(path: *const c_char, flags: c_int, mode: mode_t) -> c_int {
    do_open(libc::AT_FDCWD, path, flags, mode)
}
#[no_mangle]
pub unsafe extern "C" fn openat(dirfd: c_int, path: *const c_char, flags: c_int, mode: mode_t) -> c_int {
    do_open(dirfd, path, flags, mode)
}
#[no_mangle]
pub unsafe extern "C" fn openat64(dirfd: c_int, path: *const c_char, flags: c_int, mode: mode_t) -> c_int {
    do_open(dirfd, path, flags, mode)
}
#[no_mangle]
pub unsafe extern "C" fn creat(path: *const c_char, mode: mode_t) -> c_int {
    do_open(libc::AT_FDCWD, path, libc::O_CREAT | libc::O_WRONLY | libc::O_TRUNC, mode)
}
#[no_mangle]
pub unsafe extern "C" fn creat64(path: *const c_char, mode: mode_t) -> c_int {
    do_open(libc::AT_FDCWD, path, libc::O_CREAT | libc::O_WRONLY | libc::O_TRUNC, mode)
}
const _: c_long = SYS_OPEN + SYS_CREAT; // silence unused

#[no_mangle]
pub unsafe extern "C" fn close(fd: c_int) -> c_int {
    let t = tracked(fd);
    if t != 0 {
        TRACKED[fd as usize].store(0, Ordering::Release);
        if t != DIR_MARK && ACTIVE.load(Ordering::Acquire) && enter() {
            // retire the inode if this was the last reference to an unlinked file
            let (st_ino, nlink, _) = fstat_ino_nlink(fd);
            if nlink == 0 {
                let still = TRACKED.iter().any(|x| x.load(Ordering::Relaxed) == t);
                if !still {
                    rec_do(|r| r.live.retain(|(k, _)| *k != st_ino));
                }
            }
            leave();
        }
    }
    libc::syscall(SYS_CLOSE, fd) as c_int
}

unsafe fn dup_common(old: c_int, new: c_int) {
    if new >= 0 && (new as usize) < MAX_FD {
        TRACKED[new as usize].store(tracked(old), Ordering::Release);
    }
}
#[no_mangle]
pub unsafe extern "C" fn dup(fd: c_int) -> c_int {
    let r = libc::syscall(SYS_DUP, fd) as c_int;
    dup_common(fd, r);
    r
}
#[no_mangle]
pub unsafe extern "C" fn dup2(old: c_int, new: c_int) -> c_int {
    let r = libc::syscall(SYS_DUP2, old, new) as c_int;
    dup_common(old, r);
    r
}
#[no_mangle]
pub unsafe extern "C" fn dup3(old: c_int, new: c_int, flags: c_int) -> c_int {
    let r = libc::syscall(SYS_DUP3, old, new, flags) as c_int;
    dup_common(old, r);
    r
}
#[no_mangle]
pub unsafe extern "C" fn fcntl(fd: c_int, cmd: c_int, arg: c_ulong) -> c_int {
    let r = libc::syscall(SYS_FCNTL, fd, cmd, arg) as c_int;
    if (cmd == libc::F_DUPFD || cmd == libc::F_DUPFD_CLOEXEC) && r >= 0 {
        dup_common(fd, r);
    }
    r
}
#[no_mangle]
pub unsafe extern "C" fn fcntl64(fd: c_int, cmd: c_int, arg: c_ulong) -> c_int {
    fcntl(fd, cmd, arg)
}

unsafe fn resolve_name(dirfd: c_int, path: *const c_char) -> Option<Vec<u8>> {
    let p = path_bytes(path);
    if !p.is_empty() && p[0] == b'/' {
        child_name(p).map(|n| n.to_vec())
    } else if dirfd >= 0 && tracked(dirfd) == DIR_MARK && !p.contains(&b'/') {
        Some(p.to_vec())
    } else {
        None
    }
}

unsafe fn do_rename(od: c_int, op: *const c_char, nd: c_int, np: *const c_char, flags: c_uint) -> c_int {
    let raw = || {
        if flags == 0 {
            libc::syscall(SYS_RENAMEAT, od, op, nd, np) as c_int
        } else {
            libc::syscall(SYS_RENAMEAT2, od, op, nd, np, flags) as c_int
        }
    };
    if !ACTIVE.load(Ordering::Acquire) || !enter() {
        return raw();
    }
    let a = resolve_name(od, op);
    let b = resolve_name(nd, np);
    if a.is_none() && b.is_none() {
        leave();
        return raw();
    }
    let (ord, act) = rec_do(|r| r.decide(SysClass::Rename, 0)).unwrap_or((0, None));
    if let Some(FaultAction::Errno(e)) = act {
        set_errno(e);
        leave();
        return -1;
    }
    let r = raw();
    if r == 0 {
        let a = a.unwrap_or_default();
        let b = b.unwrap_or_default();
        rec_do(|rec| rec.push(Kind::Rename, 0, 0, 0, Vec::new(), &a, &b, ord));
    }
    leave();
    r
}
#[no_mangle]
pub unsafe extern "C" fn rename(op: *const c_char, np: *const c_char) -> c_int {
    do_rename(libc::AT_FDCWD, op, libc::AT_FDCWD, np, 0)
}
#[no_mangle]
pub unsafe extern "C" fn renameat(od: c_int, op: *const c_char, nd: c_int, np: *const c_char) -> c_int {
    do_rename(od, op, nd, np, 0)
}
#[no_mangle]
pub unsafe extern "C" fn renameat2(od: c_int, op: *const c_char, nd: c_int, np: *const c_char, flags: c_uint) -> c_int {
    do_rename(od, op, nd, np, flags)
}
const _: c_long = SYS_RENAME + SYS_UNLINK;

unsafe fn do_unlink(dirfd: c_int, path: *const c_char, flags: c_int) -> c_int {
    let raw = || libc::syscall(SYS_UNLINKAT, dirfd, path, flags) as c_int;
    if !ACTIVE.load(Ordering::Acquire) || !enter() {
        return raw();
    }
    let Some(name) = resolve_name(dirfd, path) else {
        leave();
        return raw();
    };
    let (ord, _act) = rec_do(|r| r.decide(SysClass::Other, 0)).unwrap_or((0, None));
    let r = raw();
    if r == 0 {
        rec_do(|rec| rec.push(Kind::Unlink, 0, 0, 0, Vec::new(), &name, &[], ord));
    }
    leave();
    r
}
#[no_mangle]
pub unsafe extern "C" fn unlink(path: *const c_char) -> c_int {
    do_unlink(libc::AT_FDCWD, path, 0)
}
#[no_mangle]
pub unsafe extern "C" fn unlinkat(dirfd: c_int, path: *const c_char, flags: c_int) -> c_int {
    do_unlink(dirfd, path, flags)
}

// ---- data ----------------------------------------------------------------------------

unsafe fn cur_off(fd: c_int) -> u64 {
    let r = libc::syscall(SYS_LSEEK, fd, 0 as off_t, libc::SEEK_CUR);
    if r < 0 { 0 } else { r as u64 }
}

unsafe fn tracked_write(fd: c_int, ino: u32, buf: *const c_void, count: size_t, off: Option<u64>) -> ssize_t {
    let (ord, act) = rec_do(|r| r.decide(SysClass::Write, count as u64)).unwrap_or((0, None));
    let mut n = count;
    match act {
        Some(FaultAction::Errno(e)) => {
            set_errno(e);
            return -1;
        }
        Some(FaultAction::Short(k)) => n = (k as usize).min(count).max(1),
        None => {}
    }
    let at = match off {
        Some(o) => o,
        None => {
            // O_APPEND is not used by the code under test
            cur_off(fd)
        }
    };
    let r = match off {
        Some(o) => libc::syscall(SYS_PWRITE64, fd, buf, n, o as off_t),
        None => libc::syscall(SYS_WRITE, fd, buf, n),
    } as ssize_t;
    if r > 0 {
        let data = std::slice::from_raw_parts(buf as *const u8, r as usize).to_vec();
        rec_do(|rec| rec.push(Kind::Write, ino, at, r as u64, data, &[], &[], ord));
    }
    r
}

#[no_mangle]
pub unsafe extern "C" fn write(fd: c_int, buf: *const c_void, count: size_t) -> ssize_t {
    let t = tracked(fd);
    if t == 0 || t == DIR_MARK || !ACTIVE.load(Ordering::Acquire) || !enter() {
        return libc::syscall(SYS_WRITE, fd, buf, count) as ssize_t;
    }
    let r = tracked_write(fd, t, buf, count, None);
    leave();
    r
}
#[no_mangle]
pub unsafe extern "C" fn pwrite(fd: c_int, buf: *const c_void, count: size_t, off: off_t) -> ssize_t {
    pwrite64(fd, buf, count, off)
}
#[no_mangle]
pub unsafe extern "C" fn pwrite64(fd: c_int, buf: *const c_void, count: size_t, off: off_t) -> ssize_t {
    let t = tracked(fd);
    if t == 0 || t == DIR_MARK || !ACTIVE.load(Ordering::Acquire) || !enter() {
        return libc::syscall(SYS_PWRITE64, fd, buf, count, off) as ssize_t;
    }
    let r = tracked_write(fd, t, buf, count, Some(off as u64));
    leave();
    r
}
#[no_mangle]
pub unsafe extern "C" fn writev(fd: c_int, iov: *const libc::iovec, cnt: c_int) -> ssize_t {
    let t = tracked(fd);
    if t == 0 || t == DIR_MARK || !ACTIVE.load(Ordering::Acquire) || !enter() {
        return libc::syscall(SYS_WRITEV, fd, iov, cnt) as ssize_t;
    }
    // flatten: one write of the concatenation (a short count is legal for writev too)
    let mut flat = Vec::new();
    for i in 0..cnt as usize {
        let v = &*iov.add(i);
        flat.extend_from_slice(std::slice::from_raw_parts(v.iov_base as *const u8, v.iov_len));
    }
    let r = if flat.is_empty() { 0 } else { tracked_write(fd, t, flat.as_ptr() as *const c_void, flat.len(), None) };
    leave();
    r
}
#[no_mangle]
pub unsafe extern "C" fn pwritev(fd: c_int, iov: *const libc::iovec, cnt: c_int, off: off_t) -> ssize_t {
    let t = tracked(fd);
    if t == 0 || t == DIR_MARK || !ACTIVE.load(Ordering::Acquire) || !enter() {
        return libc::syscall(SYS_PWRITEV, fd, iov, cnt, off) as ssize_t;
    }
    let mut flat = Vec::new();
    for i in 0..cnt as usize {
        let v = &*iov.add(i);
        flat.extend_from_slice(std::slice::from_raw_parts(v.iov_base as *const u8, v.iov_len));
    }
    let r = if flat.is_empty() { 0 } else { tracked_write(fd, t, flat.as_ptr() as *const c_void, flat.len(), Some(off as u64)) };
    leave();
    r
}
#[no_mangle]
pub unsafe extern "C" fn pwritev64(fd: c_int, iov: *const libc::iovec, cnt: c_int, off: off_t) -> ssize_t {
    pwritev(fd, iov, cnt, off)
}

unsafe fn log_copied(dst: c_int, ino: u32, at: u64, n: u64, ord: u64) {
    // capture what landed in the destination (the page-cache view is authoritative)
    let mut data = vec![0u8; n as usize];
    let mut got = 0usize;
    while got < n as usize {
        let r = libc::syscall(SYS_PREAD64, dst, data.as_mut_ptr().add(got), n as usize - got, (at as usize + got) as off_t);
        if r <= 0 {
            break;
        }
        got += r as usize;
    }
    data.truncate(got);
    rec_do(|rec| rec.push(Kind::Write, ino, at, got as u64, data, b"copy", &[], ord));
}

#[no_mangle]
pub unsafe extern "C" fn copy_file_range(
    fd_in: c_int,
    off_in: *mut off_t,
    fd_out: c_int,
    off_out: *mut off_t,
    len: size_t,
    flags: c_uint,
) -> ssize_t {
    let t = tracked(fd_out);
    if t == 0 || t == DIR_MARK || !ACTIVE.load(Ordering::Acquire) || !enter() {
        return libc::syscall(SYS_COPY_FILE_RANGE, fd_in, off_in, fd_out, off_out, len, flags) as ssize_t;
    }
    let (ord, act) = rec_do(|r| r.decide(SysClass::Copy, len as u64)).unwrap_or((0, None));
    let mut n = len;
    match act {
        Some(FaultAction::Errno(e)) => {
            set_errno(e);
            leave();
            return -1;
        }
        Some(FaultAction::Short(k)) => n = (k as usize).min(len).max(1),
        None => {}
    }
    let at = if off_out.is_null() { cur_off(fd_out) } else { *off_out as u64 };
    let r = libc::syscall(SYS_COPY_FILE_RANGE, fd_in, off_in, fd_out, off_out, n, flags) as ssize_t;
    if r > 0 {
        log_copied(fd_out, t, at, r as u64, ord);
    }
    leave();
    r
}

#[no_mangle]
pub unsafe extern "C" fn sendfile(out_fd: c_int, in_fd: c_int, offset: *mut off_t, count: size_t) -> ssize_t {
    let t = tracked(out_fd);
    if t == 0 || t == DIR_MARK || !ACTIVE.load(Ordering::Acquire) || !enter() {
        return libc::syscall(SYS_SENDFILE, out_fd, in_fd, offset, count) as ssize_t;
    }
    let (ord, act) = rec_do(|r| r.decide(SysClass::Copy, count as u64)).unwrap_or((0, None));
    let mut n = count;
    match act {
        Some(FaultAction::Errno(e)) => {
            set_errno(e);
            leave();
            return -1;
        }
        Some(FaultAction::Short(k)) => n = (k as usize).min(count).max(1),
        None => {}
    }
    let at = cur_off(out_fd);
    let r = libc::syscall(SYS_SENDFILE, out_fd, in_fd, offset, n) as ssize_t;
    if r > 0 {
        log_copied(out_fd, t, at, r as u64, ord);
    }
    leave();
    r
}
#[no_mangle]
pub unsafe extern "C" fn sendfile64(out_fd: c_int, in_fd: c_int, offset: *mut off_t, count: size_t) -> ssize_t {
    sendfile(out_fd, in_fd, offset, count)
}

#[no_mangle]
pub unsafe extern "C" fn ftruncate(fd: c_int, len: off_t) -> c_int {
    ftruncate64(fd, len)
}
#[no_mangle]
pub unsafe extern "C" fn ftruncate64(fd: c_int, len: off_t) -> c_int {
    let t = tracked(fd);
    if t == 0 || t == DIR_MARK || !ACTIVE.load(Ordering::Acquire) || !enter() {
        return libc::syscall(SYS_FTRUNCATE, fd, len) as c_int;
    }
    let (ord, act) = rec_do(|r| r.decide(SysClass::Trunc, 0)).unwrap_or((0, None));
    if let Some(FaultAction::Errno(e)) = act {
        set_errno(e);
        leave();
        return -1;
    }
    let r = libc::syscall(SYS_FTRUNCATE, fd, len) as c_int;
    if r == 0 {
        rec_do(|rec| rec.push(Kind::Trunc, t, len as u64, 0, Vec::new(), &[], &[], ord));
    }
    leave();
    r
}
#[no_mangle]
pub unsafe extern "C" fn fallocate(fd: c_int, mode: c_int, off: off_t, len: off_t) -> c_int {
    let t = tracked(fd);
    let r = libc::syscall(SYS_FALLOCATE, fd, mode, off, len) as c_int;
    if t != 0 && t != DIR_MARK && r == 0 && mode == 0 && ACTIVE.load(Ordering::Acquire) && enter() {
        let (_, _, size) = fstat_ino_nlink(fd);
        rec_do(|rec| {
            let ord = rec.ord;
            rec.ord += 1;
            rec.push(Kind::Trunc, t, size, 0, Vec::new(), b"fallocate", &[], ord)
        });
        leave();
    }
    r
}
#[no_mangle]
pub unsafe extern "C" fn fallocate64(fd: c_int, mode: c_int, off: off_t, len: off_t) -> c_int {
    fallocate(fd, mode, off, len)
}
#[no_mangle]
pub unsafe extern "C" fn posix_fallocate(fd: c_int, off: off_t, len: off_t) -> c_int {
    if fallocate(fd, 0, off, len) == 0 { 0 } else { *libc::__errno_location() }
}

unsafe fn do_fsync(fd: c_int, nr: c_long) -> c_int {
    let t = tracked(fd);
    if t == 0 || !ACTIVE.load(Ordering::Acquire) || !enter() {
        return libc::syscall(nr, fd) as c_int;
    }
    let (ord, mut act) = rec_do(|r| r.decide(SysClass::Fsync, 0)).unwrap_or((0, None));
    if act.is_none() && t == DIR_MARK {
        act = rec_do(|r| r.decide_dirsync()).flatten();
    }
    if let Some(FaultAction::Errno(e)) = act {
        set_errno(e);
        leave();
        return -1;
    }
    let r = libc::syscall(nr, fd) as c_int;
    if r == 0 {
        rec_do(|rec| {
            if t == DIR_MARK {
                rec.push(Kind::FsyncDir, 0, 0, 0, Vec::new(), &[], &[], ord)
            } else {
                rec.push(Kind::Fsync, t, 0, 0, Vec::new(), &[], &[], ord)
            }
        });
    }
    leave();
    r
}
#[no_mangle]
pub unsafe extern "C" fn fsync(fd: c_int) -> c_int {
    do_fsync(fd, SYS_FSYNC)
}
#[no_mangle]
pub unsafe extern "C" fn fdatasync(fd: c_int) -> c_int {
    do_fsync(fd, SYS_FDATASYNC)
}

unsafe fn tracked_read(fd: c_int, buf: *mut c_void, count: size_t, off: Option<u64>) -> ssize_t {
    let (_ord, act) = rec_do(|r| r.decide(SysClass::Read, count as u64)).unwrap_or((0, None));
    let mut n = count;
    match act {
        Some(FaultAction::Errno(e)) => {
            set_errno(e);
            return -1;
        }
        Some(FaultAction::Short(k)) => n = (k as usize).min(count).max(1),
        None => {}
    }
    match off {
        Some(o) => libc::syscall(SYS_PREAD64, fd, buf, n, o as off_t) as ssize_t,
        None => libc::syscall(SYS_READ, fd, buf, n) as ssize_t,
    }
}
#[no_mangle]
pub unsafe extern "C" fn read(fd: c_int, buf: *mut c_void, count: size_t) -> ssize_t {
    let t = tracked(fd);
    if t == 0 || t == DIR_MARK || !ACTIVE.load(Ordering::Acquire) || !enter() {
        return libc::syscall(SYS_READ, fd, buf, count) as ssize_t;
    }
    let r = tracked_read(fd, buf, count, None);
    leave();
    r
}
#[no_mangle]
pub unsafe extern "C" fn pread(fd: c_int, buf: *mut c_void, count: size_t, off: off_t) -> ssize_t {
    pread64(fd, buf, count, off)
}
#[no_mangle]
pub unsafe extern "C" fn pread64(fd: c_int, buf: *mut c_void, count: size_t, off: off_t) -> ssize_t {
    let t = tracked(fd);
    if t == 0 || t == DIR_MARK || !ACTIVE.load(Ordering::Acquire) || !enter() {
        return libc::syscall(SYS_PREAD64, fd, buf, count, off) as ssize_t;
    }
    let r = tracked_read(fd, buf, count, Some(off as u64));
    leave();
    r
}
#[no_mangle]
pub unsafe extern "C" fn readv(fd: c_int, iov: *const libc::iovec, cnt: c_int) -> ssize_t {
    libc::syscall(SYS_READV, fd, iov, cnt) as ssize_t
}

#[no_mangle]
pub unsafe extern "C" fn flock(fd: c_int, op: c_int) -> c_int {
    let t = tracked(fd);
    if t == 0 || t == DIR_MARK || !ACTIVE.load(Ordering::Acquire) || !enter() {
        return libc::syscall(SYS_FLOCK, fd, op) as c_int;
    }
    let (ord, act) = rec_do(|r| r.decide(SysClass::Flock, 0)).unwrap_or((0, None));
    if let Some(FaultAction::Errno(e)) = act {
        set_errno(e);
        leave();
        return -1;
    }
    let r = libc::syscall(SYS_FLOCK, fd, op) as c_int;
    let res = if r == 0 { 0 } else { *libc::__errno_location() as u64 };
    rec_do(|rec| rec.push(Kind::Flock, t, op as u64, res, Vec::new(), &[], &[], ord));
    leave();
    r
}

// ---- time ----------------------------------------------------------------------------

#[inline]
fn virt() -> bool {
    ENV_ON.load(Ordering::Relaxed) && SIM_THREAD.with(|c| c.get())
}

#[no_mangle]
pub unsafe extern "C" fn clock_gettime(clk: libc::clockid_t, tp: *mut libc::timespec) -> c_int {
    if !virt() || tp.is_null() {
        return libc::syscall(SYS_CLOCK_GETTIME, clk, tp) as c_int;
    }
    let mono = clock_advance();
    let ns = match clk {
        libc::CLOCK_REALTIME | libc::CLOCK_REALTIME_COARSE | libc::CLOCK_TAI => {
            let rel = mono - CLOCK_START_NS.load(Ordering::Relaxed);
            CLOCK_REAL_BASE_NS.load(Ordering::Relaxed).wrapping_add(rel)
        }
        _ => mono,
    };
    (*tp).tv_sec = (ns / 1_000_000_000) as libc::time_t;
    (*tp).tv_nsec = (ns % 1_000_000_000) as c_long;
    0
}
#[no_mangle]
pub unsafe extern "C" fn gettimeofday(tv: *mut libc::timeval, tz: *mut c_void) -> c_int {
    if !virt() || tv.is_null() {
        return libc::syscall(SYS_GETTIMEOFDAY, tv, tz) as c_int;
    }
    let mut ts: libc::timespec = std::mem::zeroed();
    clock_gettime(libc::CLOCK_REALTIME, &mut ts);
    (*tv).tv_sec = ts.tv_sec;
    (*tv).tv_usec = ts.tv_nsec / 1000;
    0
}
#[no_mangle]
pub unsafe extern "C" fn time(t: *mut libc::time_t) -> libc::time_t {
    if !virt() {
        return libc::syscall(SYS_TIME, t) as libc::time_t;
    }
    let mut ts: libc::timespec = std::mem::zeroed();
    clock_gettime(libc::CLOCK_REALTIME, &mut ts);
    if !t.is_null() {
        *t = ts.tv_sec;
    }
    ts.tv_sec
}
#[no_mangle]
pub unsafe extern "C" fn nanosleep(req: *const libc::timespec, rem: *mut libc::timespec) -> c_int {
    if !virt() || req.is_null() {
        return libc::syscall(SYS_NANOSLEEP, req, rem) as c_int;
    }
    let ns = ((*req).tv_sec as u64).saturating_mul(1_000_000_000).saturating_add((*req).tv_nsec as u64);
    CLOCK_MONO_NS.fetch_add(ns, Ordering::SeqCst);
    0
}
#[no_mangle]
pub unsafe extern "C" fn clock_nanosleep(
    clk: libc::clockid_t,
    flags: c_int,
    req: *const libc::timespec,
    rem: *mut libc::timespec,
) -> c_int {
    if !virt() || req.is_null() {
        let r = libc::syscall(SYS_CLOCK_NANOSLEEP, clk, flags, req, rem);
        // clock_nanosleep returns the error number directly
        return if r < 0 { *libc::__errno_location() } else { 0 };
    }
    let ns = ((*req).tv_sec as u64).saturating_mul(1_000_000_000).saturating_add((*req).tv_nsec as u64);
    if flags & libc::TIMER_ABSTIME != 0 {
        let now = CLOCK_MONO_NS.load(Ordering::SeqCst);
        if ns > now {
            CLOCK_MONO_NS.store(ns, Ordering::SeqCst);
        }
    } else {
        CLOCK_MONO_NS.fetch_add(ns, Ordering::SeqCst);
    }
    0
}

// ---- entropy -------------------------------------------------------------------------

#[no_mangle]
pub unsafe extern "C" fn getrandom(buf: *mut c_void, len: size_t, flags: c_uint) -> ssize_t {
    if !ENV_ON.load(Ordering::Relaxed) || buf.is_null() {
        return libc::syscall(SYS_GETRANDOM, buf, len, flags) as ssize_t;
    }
    let seed = ENV_SEED.load(Ordering::Relaxed);
    let lin = LINEAGE.with(|c| c.get());
    let out = std::slice::from_raw_parts_mut(buf as *mut u8, len);
    let mut i = 0;
    while i < len {
        let n = ENT_CTR.with(|c| {
            let v = c.get();
            c.set(v + 1);
            v
        });
        let w = mix64(mix64(seed ^ lin).wrapping_add(mix64(n ^ 0xE47A)));
        let bytes = w.to_le_bytes();
        let k = (len - i).min(8);
        out[i..i + k].copy_from_slice(&bytes[..k]);
        i += k;
    }
    ENTROPY_DRAWS.fetch_add(1, Ordering::Relaxed);
    len as ssize_t
}
#[no_mangle]
pub unsafe extern "C" fn getentropy(buf: *mut c_void, len: size_t) -> c_int {
    if getrandom(buf, len, 0) == len as ssize_t { 0 } else { -1 }
}

// ---- threads: lineage ids so that foreign threads get deterministic entropy ---------

type StartFn = extern "C" fn(*mut c_void) -> *mut c_void;
struct Tramp {
    start: StartFn,
    arg: *mut c_void,
    lineage: u64,
}
extern "C" fn trampoline(p: *mut c_void) -> *mut c_void {
    let t = unsafe { Box::from_raw(p as *mut Tramp) };
    LINEAGE.with(|c| c.set(t.lineage));
    SPAWN_CTR.with(|c| c.set(0));
    ENT_CTR.with(|c| c.set(0));
    (t.start)(t.arg)
}
type PthreadCreate = unsafe extern "C" fn(*mut libc::pthread_t, *const libc::pthread_attr_t, StartFn, *mut c_void) -> c_int;
static REAL_PTHREAD_CREATE: AtomicUsize = AtomicUsize::new(0);

#[no_mangle]
pub unsafe extern "C" fn pthread_create(
    thread: *mut libc::pthread_t,
    attr: *const libc::pthread_attr_t,
    start: StartFn,
    arg: *mut c_void,
) -> c_int {
    let mut f = REAL_PTHREAD_CREATE.load(Ordering::Relaxed);
    if f == 0 {
        f = libc::dlsym(libc::RTLD_NEXT, c"pthread_create".as_ptr()) as usize;
        REAL_PTHREAD_CREATE.store(f, Ordering::Relaxed);
    }
    let real: PthreadCreate = std::mem::transmute(f);
    let parent = LINEAGE.with(|c| c.get());
    let k = SPAWN_CTR.with(|c| {
        let v = c.get();
        c.set(v + 1);
        v
    });
    let lineage = mix64(parent ^ mix64(k.wrapping_add(0x51AB)));
    let t = Box::into_raw(Box::new(Tramp { start, arg, lineage }));
    let r = real(thread, attr, trampoline, t as *mut c_void);
    if r != 0 {
        drop(Box::from_raw(t));
    }
    r
}
