//! One integer decides everything: all streams derive from VERIF_SEED.
use crate::shim::mix64;

#[derive(Clone, Debug)]
pub struct Rng {
    s: u64,
}

impl Rng {
    pub fn new(seed: u64, purpose: &str) -> Self {
        let mut h = mix64(seed ^ 0xA5A5_5A5A_DEAD_BEEF);
        for b in purpose.bytes() {
            h = mix64(h ^ b as u64);
        }
        Rng { s: h }
    }
    pub fn next(&mut self) -> u64 {
        self.s = self.s.wrapping_add(0x9E37_79B9_7F4A_7C15);
        mix64(self.s)
    }
    /// uniform in [0, n)
    pub fn below(&mut self, n: u64) -> u64 {
        if n == 0 {
            return 0;
        }
        self.next() % n
    }
    pub fn range(&mut self, lo: u64, hi_incl: u64) -> u64 {
        lo + self.below(hi_incl - lo + 1)
    }
    pub fn chance(&mut self, num: u64, den: u64) -> bool {
        self.below(den) < num
    }
    pub fn pick<'a, T: ?Sized>(&mut self, xs: &'a [&'a T]) -> &'a T {
        xs[self.below(xs.len() as u64) as usize]
    }
    pub fn f32(&mut self) -> f32 {
        ((self.next() >> 40) as f32) / ((1u64 << 24) as f32)
    }
    /// weighted choice: returns index
    pub fn weighted(&mut self, w: &[u32]) -> usize {
        let total: u64 = w.iter().map(|x| *x as u64).sum();
        if total == 0 {
            return 0;
        }
        let mut r = self.below(total);
        for (i, x) in w.iter().enumerate() {
            if r < *x as u64 {
                return i;
            }
            r -= *x as u64;
        }
        w.len() - 1
    }
}
impl Rng {
    pub fn pickv<'a, T>(&mut self, xs: &'a [T]) -> &'a T {
        &xs[self.below(xs.len() as u64) as usize]
    }
}
