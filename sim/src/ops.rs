//! Explicit, literal operations: a scenario is a list of these plus a fault plan.
use crate::rng::Rng;
use serde::{Deserialize, Serialize};
use std::collections::BTreeMap;

/// Pseudo-words chosen so that an English stemmer leaves them unchanged (the C09 check
/// self-tests this at start-up and refuses to run otherwise).
pub const VOCAB: &[&str] = &[
    "zorvak", "blimtop", "quandox", "frelgum", "snaptig", "vurlock", "drimzap", "kolvex", "mubrik", "tanglup",
    "yelvop", "crinbax", "dosmuk", "plovgat", "hinzork", "gwemlix", "jaxtrum", "nobvick", "rulzamp", "skivmot",
    "thaglup", "wexbrim", "zimfrok", "bantrox", "cluvnak", "dregmip", "fozwick", "glabtun", "hupvrex", "kibzolt",
];

#[derive(Serialize, Deserialize, Clone, Copy, Debug, PartialEq, Eq, Hash, PartialOrd, Ord)]
pub enum PK {
    Empty,
    Tiny,
    Bin,
    Zeros,
    Compressible,
    InvalidUtf8,
    Text,
    /// unstructured UTF-8 text sized in characters (used around the 2400-char chunk threshold)
    LongText,
    /// text with a markdown table and a code fence
    Structured,
    /// text containing multi-byte characters
    Unicode,
    /// the text given verbatim in `plant[0]`
    Literal,
}

#[derive(Serialize, Deserialize, Clone, Debug, PartialEq)]
pub struct Pay {
    pub kind: PK,
    pub len: usize,
    pub seed: u64,
    /// words planted verbatim somewhere in a text payload
    #[serde(default)]
    pub plant: Vec<String>,
}

impl Pay {
    pub fn new(kind: PK, len: usize, seed: u64) -> Self {
        Pay { kind, len, seed, plant: Vec::new() }
    }
    pub fn is_text(&self) -> bool {
        matches!(self.kind, PK::Text | PK::LongText | PK::Structured | PK::Unicode | PK::Literal)
    }
    /// The unique token every payload carries (so each read is attributable to one write).
    pub fn token(&self) -> String {
        format!("tk{:08x}q", (self.seed & 0xffff_ffff) as u32)
    }
    pub fn bytes(&self) -> Vec<u8> {
        let mut r = Rng::new(self.seed, "payload");
        let tok = self.token();
        match self.kind {
            PK::Empty => Vec::new(),
            PK::Literal => self.plant.first().cloned().unwrap_or_default().into_bytes(),
            PK::Tiny => {
                let n = self.len.clamp(1, 8);
                (0..n).map(|i| if i == 0 { 0xF5 } else { r.below(256) as u8 }).collect()
            }
            PK::Bin => {
                // starts with bytes that are invalid UTF-8 and contains NULs: never text
                let mut v = vec![0xFF, 0xFE, 0x00];
                v.extend_from_slice(tok.as_bytes());
                while v.len() < self.len.max(4) {
                    v.extend_from_slice(&r.next().to_le_bytes());
                }
                v.truncate(self.len.max(4 + tok.len()));
                v
            }
            PK::Zeros => vec![0u8; self.len.max(1)],
            PK::Compressible => {
                let mut v = vec![0xC0, 0x00];
                v.extend_from_slice(tok.as_bytes());
                let pat: Vec<u8> = (0..(16 + r.below(48))).map(|_| r.below(256) as u8).collect();
                while v.len() < self.len.max(4) {
                    v.extend_from_slice(&pat);
                }
                v.truncate(self.len.max(2 + tok.len()));
                v
            }
            PK::InvalidUtf8 => {
                let mut v = Vec::new();
                let base = self.words(&mut r, self.len.max(8));
                v.extend_from_slice(base.as_bytes());
                v.truncate(self.len.max(8));
                let mid = v.len() / 2;
                v[mid] = 0xFF;
                v[0] = 0xC3;
                v[1] = 0x28;
                v
            }
            PK::Text | PK::LongText => self.words(&mut r, self.len.max(tok.len() + 2)).into_bytes(),
            PK::Unicode => {
                let mut s = String::new();
                let extras = ["é", "ß", "漢字", "Ωmega", "naïve", "日本", "ｆｕｌｌ", "ﬁ", "a\u{0301}"];
                s.push_str(&tok);
                s.push(' ');
                for p in &self.plant {
                    s.push_str(p);
                    s.push(' ');
                }
                while s.chars().count() < self.len {
                    if r.chance(1, 3) {
                        s.push_str(r.pick(&extras));
                    } else {
                        s.push_str(r.pick(VOCAB));
                    }
                    s.push(if r.chance(1, 9) { '\n' } else { ' ' });
                }
                s.trim_end().to_string().into_bytes()
            }
            PK::Structured => {
                let mut s = String::new();
                s.push_str(&format!("# Report {tok}\n\n"));
                for p in &self.plant {
                    s.push_str(p);
                    s.push('\n');
                }
                s.push_str("| name | value | note |\n|------|-------|------|\n");
                let rows = 4 + r.below(30);
                for i in 0..rows {
                    s.push_str(&format!("| {} | {} | {} |\n", r.pick(VOCAB), i * 7, r.pick(VOCAB)));
                }
                s.push_str("\n```rust\nfn main() {\n");
                for _ in 0..(2 + r.below(12)) {
                    s.push_str(&format!("    let {} = {};\n", r.pick(VOCAB), r.below(1000)));
                }
                s.push_str("}\n```\n\n");
                while s.chars().count() < self.len {
                    s.push_str(r.pick(VOCAB));
                    s.push(if r.chance(1, 12) { '\n' } else { ' ' });
                }
                s.trim_end().to_string().into_bytes()
            }
        }
    }
    fn words(&self, r: &mut Rng, chars: usize) -> String {
        let mut s = String::with_capacity(chars + 16);
        let tok = self.token();
        // token placement varies
        let tok_at = r.below(chars.max(1) as u64) as usize;
        let mut placed = false;
        let mut planted = false;
        let plant_at = r.below(chars.max(1) as u64) as usize;
        while s.len() < chars {
            if !placed && s.len() >= tok_at {
                s.push_str(&tok);
                placed = true;
            } else if !planted && s.len() >= plant_at {
                for p in &self.plant {
                    s.push_str(p);
                    s.push(' ');
                }
                planted = true;
                continue;
            } else {
                s.push_str(r.pick(VOCAB));
            }
            let sep = match r.below(14) {
                0 => ". ",
                1 => ", ",
                2 => "\n",
                _ => " ",
            };
            s.push_str(sep);
        }
        if !placed {
            s.push_str(&tok);
            s.push(' ');
        }
        if !planted {
            for p in &self.plant {
                s.push_str(p);
                s.push(' ');
            }
        }
        let t = s.trim_end().to_string();
        t
    }
}

#[derive(Serialize, Deserialize, Clone, Debug, PartialEq, Default)]
pub struct PutSpec {
    pub pay: Option<Pay>,
    #[serde(default)]
    pub uri: Option<String>,
    #[serde(default)]
    pub title: Option<String>,
    #[serde(default)]
    pub ts: Option<i64>,
    #[serde(default)]
    pub kind: Option<String>,
    #[serde(default)]
    pub track: Option<String>,
    #[serde(default)]
    pub tags: Vec<String>,
    #[serde(default)]
    pub labels: Vec<String>,
    #[serde(default)]
    pub extra: BTreeMap<String, String>,
    #[serde(default)]
    pub search_text: Option<String>,
    #[serde(default)]
    pub emb: Option<Vec<f32>>,
    #[serde(default)]
    pub chunk_embs: Option<Vec<Vec<f32>>>,
    /// use the library defaults for auto_tag / extract_dates / extract_triplets
    #[serde(default)]
    pub lib_defaults: bool,
    #[serde(default)]
    pub instant_index: bool,
    #[serde(default)]
    pub budget_ms: u64,
    #[serde(default)]
    pub enable_embedding: bool,
    #[serde(default)]
    pub triplets: bool,
    /// 0 = Document, 1 = DocumentChunk, 2 = ExtractedImage
    #[serde(default)]
    pub role: u8,
    #[serde(default)]
    pub parent_id: Option<u64>,
    /// parent addressed by the uri of a committed document (resolved when the op runs)
    #[serde(default)]
    pub parent_uri: Option<String>,
    #[serde(default)]
    pub mime: Option<String>,
}

#[derive(Serialize, Deserialize, Clone, Debug, PartialEq)]
pub struct DoctorSpec {
    pub time: bool,
    pub lex: bool,
    pub vec: bool,
    pub vacuum: bool,
    pub dry_run: bool,
}

#[derive(Serialize, Deserialize, Clone, Debug, PartialEq)]
pub struct BatchSpec {
    pub compression_level: i32,
    pub disable_auto_checkpoint: bool,
    pub skip_sync: bool,
    pub wal_pre_size: u64,
}

#[derive(Serialize, Deserialize, Clone, Debug, PartialEq)]
pub struct SearchSpec {
    pub query: String,
    pub top_k: usize,
    pub snippet_chars: usize,
    #[serde(default)]
    pub uri: Option<String>,
    #[serde(default)]
    pub scope: Option<String>,
    #[serde(default)]
    pub as_of_frame: Option<u64>,
    #[serde(default)]
    pub as_of_ts: Option<i64>,
    #[serde(default)]
    pub no_sketch: bool,
}

/// A caller-made memory card (C27); every field literal, `created_at` included.
#[derive(Serialize, Deserialize, Clone, Debug, PartialEq, Default)]
pub struct CardSpec {
    pub entity: String,
    pub slot: String,
    pub value: String,
    /// MemoryKind discriminant 0..6
    pub kind: u8,
    pub event_date: Option<i64>,
    pub document_date: Option<i64>,
    /// 0 Sets, 1 Updates, 2 Extends, 3 Retracts
    pub relation: u8,
    pub source: u64,
    pub created_at: i64,
}

/// Caller identity for ACL-aware retrieval (C12).
#[derive(Serialize, Deserialize, Clone, Debug, PartialEq, Default)]
pub struct AclCtx {
    pub tenant: Option<String>,
    pub subject: Option<String>,
    #[serde(default)]
    pub roles: Vec<String>,
    #[serde(default)]
    pub groups: Vec<String>,
}

#[derive(Serialize, Deserialize, Clone, Debug, PartialEq)]
pub struct TimelineSpec {
    pub limit: Option<u64>,
    pub since: Option<i64>,
    pub until: Option<i64>,
    pub reverse: bool,
}

#[derive(Serialize, Deserialize, Clone, Debug, PartialEq)]
pub enum Op {
    Create,
    Open,
    OpenRo,
    /// drop the handle (the library commits on drop when dirty)
    Close,
    Put(PutSpec),
    /// WAL steering: a binary put whose size is chosen when the op runs, from the embedded log's
    /// actual write head, so that its record ends `gap` bytes before the end of the log region
    /// (gap < 48: no room for an end-of-log sentinel behind it). The first steering put of a run
    /// calibrates the record overhead. Deterministic: the head is a function of the history.
    PutSteer { gap: u64, seed: u64 },
    /// update committed frame `target`; payload None keeps the old payload
    Update { target: u64, spec: PutSpec },
    Delete { target: u64 },
    /// as Update / Delete, addressing the committed active document that carries this uri
    UpdateUri { uri: String, spec: PutSpec },
    DeleteUri { uri: String },
    Commit,
    Vacuum,
    Doctor(DoctorSpec),
    Verify { deep: bool },
    EnableLex,
    EnableVec,
    Ticket { issuer: String, seq: i64, capacity: Option<u64> },
    /// a ticket granting the current end of the committed payload region plus `slack` bytes
    TicketRel { seq: i64, slack: u64 },
    /// bind the memory to a dashboard memory id (needed before signed tickets are considered)
    Bind { memory: u64 },
    /// a signed ticket whose 64-byte signature is random (the vendor key is not available)
    SignedTicket { issuer: String, seq: i64, capacity: Option<u64>, memory: u64, sig_seed: u64 },
    /// bind the memory to the one memory id for which an authentic signature is available offline
    /// (the test vector pinned in the crate's own signature tests)
    BindPinned,
    /// the authentic signed ticket (seq 9, 10 GiB, memory 69601cef-...), byte for byte (tamper 0)
    /// or with one field changed under the same signature (1 seq, 2 capacity, 3 memory id,
    /// 4 issuer, 5 expiry)
    PinnedTicket { tamper: u8 },
    /// create / remove a file next to the memory (forbidden sidecars)
    PlantSidecar { name: String },
    RemoveSidecar { name: String },
    BeginBatch(BatchSpec),
    EndBatch,
    CommitSkipIndexes,
    FinalizeIndexes,
    /// process dies now (no drop); continue on what the disk holds
    Abandon,
    /// the full read battery + model comparison on the live handle
    Check,
    Search(SearchSpec),
    Timeline(TimelineSpec),
    SearchVec { q: Vec<f32>, k: usize },
    /// C12: retrieval with a caller context; entry 0 = search, 1 = vec_search_with_embedding_acl,
    /// 2 = search_adaptive_acl, 3 = ask (lexical mode, no embedder)
    AclSearch { spec: SearchSpec, ctx: Option<AclCtx>, enforce: bool, entry: u8, emb: Vec<f32> },
    /// C27: put_memory_card (one) / put_memory_cards (several)
    PutCards(Vec<CardSpec>),
    /// C27: get_memory_at_time(entity, slot, t) (t None: get_current_memory) vs reference
    CardQuery { entity: String, slot: String, t: Option<i64> },
    /// C27: add nodes / edges to the logic mesh (names are literal; ids derive from them)
    MeshAdd { nodes: Vec<(String, u8)>, edges: Vec<(usize, usize, u8)>, frame: u64 },
    /// engine 2 (C05): an operation on the embedded WAL itself
    Wal(crate::walsim::WalOp),
    /// C17, second actor ("another process"): a writable Memvid::open of the same path through an
    /// independent open file description, attempted while the first handle may be alive
    Open2,
    /// C17, third party: raw flock(LOCK_EX|LOCK_NB) on a fresh descriptor of the path
    LockProbe,
    /// C17, second actor: Memvid::doctor on the path while the first handle may be alive
    Doctor2,
    /// the public downgrade_to_shared() on the live handle (it upgrades again on the next mutation)
    Downgrade,
    /// C17: two handles opened read-only on the closed memory contend for the writer role; each
    /// step is (handle 0|1, action 0 = apply_ticket, 1 = downgrade_to_shared, 2 = put). A handle is a
    /// writer from its first successful mutation until it downgrades. Runs last in a scenario.
    RoContend { steps: Vec<(u8, u8)> },
}

impl Op {
    pub fn kind_name(&self) -> &'static str {
        match self {
            Op::Create => "create",
            Op::Open => "open",
            Op::OpenRo => "open_ro",
            Op::Close => "close",
            Op::Put(_) | Op::PutSteer { .. } => "put",
            Op::Update { .. } => "update",
            Op::Delete { .. } | Op::DeleteUri { .. } => "delete",
            Op::UpdateUri { .. } => "update",
            Op::Commit => "commit",
            Op::Vacuum => "vacuum",
            Op::Doctor(_) => "doctor",
            Op::Verify { .. } => "verify",
            Op::EnableLex => "enable_lex",
            Op::EnableVec => "enable_vec",
            Op::Ticket { .. } | Op::TicketRel { .. } => "ticket",
            Op::Bind { .. } => "bind",
            Op::SignedTicket { .. } | Op::PinnedTicket { .. } => "signed_ticket",
            Op::BindPinned => "bind",
            Op::PlantSidecar { .. } => "plant_sidecar",
            Op::RemoveSidecar { .. } => "remove_sidecar",
            Op::BeginBatch(_) => "begin_batch",
            Op::EndBatch => "end_batch",
            Op::CommitSkipIndexes => "commit_skip_indexes",
            Op::FinalizeIndexes => "finalize_indexes",
            Op::Abandon => "abandon",
            Op::Check => "check",
            Op::Search(_) => "search",
            Op::Timeline(_) => "timeline",
            Op::SearchVec { .. } => "search_vec",
            Op::AclSearch { .. } => "acl_search",
            Op::PutCards(_) => "put_cards",
            Op::CardQuery { .. } => "card_query",
            Op::MeshAdd { .. } => "mesh_add",
            Op::Wal(_) => "wal",
            Op::Open2 => "open2",
            Op::LockProbe => "lock_probe",
            Op::Doctor2 => "doctor2",
            Op::Downgrade => "downgrade",
            Op::RoContend { .. } => "ro_contend",
        }
    }
    pub fn is_mutation(&self) -> bool {
        matches!(
            self,
            Op::Put(_) | Op::PutSteer { .. } | Op::Update { .. } | Op::Delete { .. } | Op::UpdateUri { .. } | Op::DeleteUri { .. } | Op::Commit | Op::Vacuum | Op::Ticket { .. } | Op::CommitSkipIndexes | Op::FinalizeIndexes
        )
    }
}

/// Environment of a run (clock / entropy / faults), all literal.
#[derive(Serialize, Deserialize, Clone, Debug, PartialEq)]
pub struct EnvCfg {
    pub env_seed: u64,
    pub real_base_s: u64,
    pub jumpy_pm: u32,
}

#[derive(Serialize, Deserialize, Clone, Debug)]
pub struct Scenario {
    pub seed: u64,
    pub env: EnvCfg,
    pub ops: Vec<Op>,
    #[serde(default)]
    pub fault: crate::shim::FaultCfg,
    /// ops[i] during which faults are enabled (empty = all)
    #[serde(default)]
    pub fault_ops: Vec<usize>,
    /// explicit post step (replay / minimisation): evaluate exactly this crash point
    #[serde(default)]
    pub post: Option<crate::crash::CrashPoint>,
    /// explicit medium fault applied to the closed file (replay / minimisation)
    #[serde(default)]
    pub medium: Option<crate::corrupt::Medium>,
    /// free-form knobs of the check that produced the scenario
    #[serde(default)]
    pub knobs: std::collections::BTreeMap<String, i64>,
}
