//! The executor: runs literal operations against the real `Memvid` and the reference model,
//! under the recorder, and evaluates oracles.
use crate::disk::{self, CrashSpec, FsImage};
use crate::model::{MFrame, Model, POp, St};
use crate::ops::*;
use crate::shim::{self, Kind, LogOp};
use memvid_core::{
    DoctorOptions, Frame, FrameRole, FrameStatus, Memvid, MemvidError, PutManyOpts, PutOptions, Ticket, VerificationStatus,
};
use serde::Serialize;
use std::io::Read;
use std::panic::{catch_unwind, AssertUnwindSafe};

#[derive(Clone, Debug, Serialize)]
pub struct Violation {
    /// properties this oracle is evidence for
    pub props: Vec<String>,
    pub oracle: String,
    /// short stable class of the failure (part of the known-findings signature)
    pub sig: String,
    pub msg: String,
    pub op: usize,
}

#[derive(Clone, Debug, Default, Serialize)]
pub struct Probes {
    pub auto_checkpoint: u64,
    pub wal_grew: u64,
    pub head_near_end: u64,
    pub replay_on_open: u64,
    pub reopen: u64,
    pub abandon: u64,
    pub chunked_puts: u64,
    pub updates: u64,
    pub deletes: u64,
    pub full_compares: u64,
    pub frames_compared: u64,
    pub op_errors: u64,
    pub skipped_ops: u64,
    pub acked_mutations: u64,
    pub compares_after_reopen: u64,
    pub ro_opens: u64,
    pub vacuum: u64,
    pub doctor: u64,
}

pub struct Segment {
    pub dir: String,
    pub base: FsImage,
    pub log: Vec<LogOp>,
    pub fired: Vec<shim::FiredFault>,
    pub counts: [u64; 9],
}

#[derive(Clone, Debug, Serialize)]
pub struct OpRecord {
    pub i: usize,
    pub kind: &'static str,
    pub ok: bool,
    pub skipped: bool,
    pub err: Option<String>,
    /// log index range [b, e) in the segment that was current when the op ran
    pub seg: usize,
    pub log_b: usize,
    pub log_e: usize,
}

pub struct World {
    pub root: String,
    pub seg: usize,
    pub dir: String,
    pub path: String,
    pub mem: Option<Memvid>,
    pub ro: bool,
    pub model: Model,
    /// model after each op
    pub snaps: Vec<Model>,
    pub segs: Vec<Segment>,
    pub base: FsImage,
    pub violations: Vec<Violation>,
    pub probes: Probes,
    pub recs: Vec<OpRecord>,
    pub fault: shim::FaultCfg,
    pub fault_seed: u64,
    pub fault_ops: Vec<usize>,
    pub reopened_since_mutation: bool,
    pub panicked: Option<String>,
    /// faults fired so far are error-class (relaxes "must succeed" expectations)
    pub error_faults: bool,
    pub wal_size_seen: u64,
    /// no recorder, no virtual environment: the real code on the real file system (used to
    /// confirm that a finding is not an artefact of the simulator)
    pub plain: bool,
    /// (committed-state digest | query) -> (answer, kind of handle that gave it)
    pub query_log: std::collections::BTreeMap<String, (Vec<crate::reads::HitKey>, String)>,
    pub extra_probes: std::collections::BTreeMap<String, u64>,
    /// files the scenario planted in the directory on purpose (sidecars)
    pub planted: Vec<String>,
    /// hash of the file when the current read-only handle was opened
    pub ro_bytes: Option<String>,
    pub bound: Option<u64>,
    pub must_refuse: bool,
    pub puts_since_commit: u64,
    pub applied_puts_last_commit: u64,
    /// Some(property) while the file is exactly as vacuum / doctor left it
    pub verify_expect: Option<&'static str>,
    pub verify_expect_next: Option<&'static str>,
    /// Some("C42") from a successful vacuum (directly or through doctor) until the next mutation:
    /// a disagreement with the reference model seen in that window is also a disagreement with
    /// "vacuum keeps ids, metadata, content and answers"
    pub attrib: Option<&'static str>,
    /// log index at which the current handle was opened (C17: what has it done since?)
    pub handle_opened_at: usize,
    /// measured WAL record size minus payload size of a steering put
    pub steer_overhead: Option<u64>,
}

/// true when the library will store this payload whole (no chunk plan)
fn chunk_free(p: &[u8]) -> bool {
    std::str::from_utf8(p).is_err()
}

pub const FILE: &str = "m.mv2";
/// The one memory id and signature for which an authentic control-plane ticket is available
/// offline (pinned in the crate's own src/signature.rs tests): issuer memvid-dashboard, seq 9,
/// 86400 s, 10 GiB.
pub const PINNED_MEMORY: &str = "69601cef-bea5-7ba3-fec3-9b5c00000000";
pub const PINNED_SIG: &str = "OUVSB4rKCSPDlP+rrZN1AlkI6k2zDdNaZb5HKPZDTjqhnCHBYKXg4lyEE4aevDN7rLpdFjINiCCaBEBaH35vDw==";

fn errs(e: &MemvidError) -> String {
    let s = format!("{e}");
    if s.len() > 160 { s[..160].to_string() } else { s }
}

pub fn put_options(s: &PutSpec) -> PutOptions {
    let mut o = PutOptions::default();
    o.timestamp = s.ts;
    o.uri = s.uri.clone();
    o.title = s.title.clone();
    o.kind = s.kind.clone();
    o.track = s.track.clone();
    o.tags = s.tags.clone();
    o.labels = s.labels.clone();
    o.extra_metadata = s.extra.clone();
    o.search_text = s.search_text.clone();
    if !s.lib_defaults {
        o.auto_tag = false;
        o.extract_dates = false;
    }
    o.extract_triplets = s.triplets;
    o.instant_index = s.instant_index;
    o.extraction_budget_ms = s.budget_ms;
    o.enable_embedding = s.enable_embedding;
    o.role = match s.role {
        1 => FrameRole::DocumentChunk,
        2 => FrameRole::ExtractedImage,
        _ => FrameRole::Document,
    };
    o.parent_id = s.parent_id;
    if let Some(m) = &s.mime {
        let mut md = memvid_core::DocMetadata::default();
        md.mime = Some(m.clone());
        o.metadata = Some(md);
    }
    o
}

fn role_num(r: FrameRole) -> u8 {
    match r {
        FrameRole::Document => 0,
        FrameRole::DocumentChunk => 1,
        FrameRole::ExtractedImage => 2,
    }
}
fn st_of(s: FrameStatus) -> St {
    match s {
        FrameStatus::Active => St::Active,
        FrameStatus::Superseded => St::Superseded,
        FrameStatus::Deleted => St::Deleted,
    }
}

impl World {
    pub fn new(root: &str, scn: &Scenario) -> World {
        let dir = format!("{root}/w0");
        std::fs::create_dir_all(&dir).unwrap();
        let w = World {
            root: root.to_string(),
            seg: 0,
            path: format!("{dir}/{FILE}"),
            dir,
            mem: None,
            ro: false,
            model: Model::default(),
            snaps: Vec::new(),
            segs: Vec::new(),
            base: FsImage::default(),
            violations: Vec::new(),
            probes: Probes::default(),
            recs: Vec::new(),
            fault: scn.fault.clone(),
            fault_seed: scn.seed ^ 0xFA17,
            fault_ops: scn.fault_ops.clone(),
            reopened_since_mutation: false,
            panicked: None,
            error_faults: false,
            wal_size_seen: 65536,
            plain: std::env::var("MEMSIM_PLAIN").is_ok(),
            query_log: Default::default(),
            extra_probes: Default::default(),
            planted: Vec::new(),
            ro_bytes: None,
            bound: None,
            must_refuse: false,
            puts_since_commit: 0,
            applied_puts_last_commit: 0,
            verify_expect: None,
            verify_expect_next: None,
            attrib: None,
            handle_opened_at: 0,
            steer_overhead: None,
        };
        if !w.plain {
            shim::start(&w.dir, w.fault.clone(), w.fault_seed);
        }
        w
    }

    /// Start a world on an existing image (C04 / C21 / C22 inputs).
    pub fn on_image(root: &str, img: &FsImage, scn: &Scenario, model: Model) -> World {
        let mut w = World::new(root, scn);
        shim::pause();
        disk::materialize(img, &w.dir).unwrap();
        shim::resume();
        w.base = img.clone();
        w.model = model;
        w
    }

    pub fn probes_extra(&mut self, name: &str, n: u64) {
        *self.extra_probes.entry(name.to_string()).or_default() += n;
    }

    pub fn viol(&mut self, props: &[&str], oracle: &str, msg: String, op: usize) {
        self.viol_sig(props, oracle, "", msg, op)
    }
    pub fn viol_sig(&mut self, props: &[&str], oracle: &str, sig: &str, msg: String, op: usize) {
        if self.violations.len() < 50 {
            let mut props: Vec<String> = props.iter().map(|s| s.to_string()).collect();
            if let Some(a) = self.attrib {
                if !props.iter().any(|p| p == a) && props.iter().any(|p| matches!(p.as_str(), "C01" | "C06" | "C07" | "C08" | "C13" | "C14" | "C15" | "C27")) {
                    props.push(a.to_string());
                }
            }
            self.violations.push(Violation { props, oracle: oracle.to_string(), sig: sig.to_string(), msg, op });
        }
    }

    pub fn finish_segment(&mut self) {
        if let Some(r) = shim::stop() {
            self.segs.push(Segment { dir: self.dir.clone(), base: std::mem::take(&mut self.base), log: r.log, fired: r.fired, counts: r.counts });
        }
    }

    /// Switch to a new directory holding `img`; the old handle is leaked (process death).
    pub fn switch_to_image(&mut self, img: FsImage) {
        if let Some(m) = self.mem.take() {
            std::mem::forget(m);
        }
        self.finish_segment();
        self.seg += 1;
        self.dir = format!("{}/w{}", self.root, self.seg);
        self.path = format!("{}/{FILE}", self.dir);
        disk::materialize(&img, &self.dir).unwrap();
        self.base = img;
        if !self.plain {
            shim::start(&self.dir, self.fault.clone(), self.fault_seed ^ (self.seg as u64) << 32);
        }
    }

    fn log_range_has(&self, b: usize, kind: Kind) -> bool {
        shim::with_rec(|r| r.log[b.min(r.log.len())..].iter().any(|o| o.kind == kind)).unwrap_or(false)
    }

    fn observe_wal(&mut self, b: usize) {
        // steering / probe: where did the last WAL record write end relative to the region end?
        let wal_size = self.wal_size_seen;
        let info = shim::with_rec(|r| {
            let mut near = 0u64;
            let mut grew = false;
            for o in r.log[b.min(r.log.len())..].iter() {
                if o.kind == Kind::Write && o.off >= 4096 && o.off + o.len <= 4096 + wal_size && o.len > 48 {
                    let end = o.off + o.len - 4096;
                    if wal_size - end < 48 {
                        near += 1;
                    }
                }
                if o.kind == Kind::Write && o.off == 0 && o.len >= 64 && o.data.len() >= 64 {
                    // header rewrite: wal_size lives at a fixed offset; detect growth by the data shift instead
                }
                if o.kind == Kind::Trunc && o.name != "fallocate" {
                    grew = grew || false;
                }
            }
            near
        })
        .unwrap_or(0);
        self.probes.head_near_end += info;
    }

    pub fn run(&mut self, ops: &[Op]) {
        for (i, op) in ops.iter().enumerate() {
            if self.panicked.is_some() {
                break;
            }
            self.run_op(i, op);
            self.snaps.push(self.model.clone());
        }
    }

    pub fn run_op(&mut self, i: usize, op: &Op) {
        let faults_on = self.fault_ops.is_empty() || self.fault_ops.contains(&i);
        shim::set_faults_enabled(faults_on && !matches!(op, Op::Check));
        shim::mark(Kind::Begin, i as u64);
        let log_b = shim::log_len();
        if matches!(op, Op::Create | Op::Open | Op::OpenRo) && self.mem.is_none() {
            self.handle_opened_at = log_b;
        }
        let seg = self.seg;
        let fired_before = shim::with_rec(|r| r.errors_fired).unwrap_or(0);
        let res = catch_unwind(AssertUnwindSafe(|| self.exec(i, op, log_b)));
        shim::set_faults_enabled(false);
        let fired_after = shim::with_rec(|r| r.errors_fired).unwrap_or(0);
        if fired_after > fired_before {
            self.error_faults = true;
        }
        let (ok, skipped, err) = match res {
            Ok(r) => r,
            Err(p) => {
                let msg = if let Some(s) = p.downcast_ref::<String>() {
                    s.clone()
                } else if let Some(s) = p.downcast_ref::<&str>() {
                    s.to_string()
                } else {
                    "panic".to_string()
                };
                self.panicked = Some(format!("op {i} {}: {msg}", op.kind_name()));
                self.viol(&["C22", "PANIC"], "no-panic", format!("panic in {}: {msg}", op.kind_name()), i);
                // the handle may be in an arbitrary state
                if let Some(m) = self.mem.take() {
                    std::mem::forget(m);
                }
                (false, false, Some("panic".to_string()))
            }
        };
        if seg == self.seg {
            shim::mark(Kind::End, i as u64);
        }
        let log_e = if seg == self.seg { shim::log_len() } else { 0 };
        if seg == self.seg && !skipped && self.panicked.is_none() {
            self.post_op_invariants(i, op, ok, err.as_deref(), log_b);
        }
        if !ok && !skipped {
            self.probes.op_errors += 1;
        }
        if skipped {
            self.probes.skipped_ops += 1;
        }
        if ok && op.is_mutation() {
            self.probes.acked_mutations += 1;
            self.reopened_since_mutation = false;
        }
        if std::env::var("MEMSIM_DUMP").is_ok() {
            eprintln!("== op {i} {} ok={ok} skipped={skipped} err={:?}", op.kind_name(), err);
            if let Some(f) = shim::with_rec(|r| r.fired.clone()) {
                if !f.is_empty() {
                    eprintln!("   faults fired so far: {:?}", f);
                }
            }
            if let Some(l) = shim::with_rec(|r| r.log[log_b.min(r.log.len())..].iter().map(|o| format!("{:?}@{}+{}:{}", o.kind, o.off, o.len, o.name)).collect::<Vec<_>>()) {
                eprintln!("   syscalls: {}", l.join(" "));
            }
            if let Some(m) = self.mem.as_mut() {
                if let Ok(st) = m.stats() {
                    eprintln!("   frames={} size={} payload_bytes={} next_id={}", st.frame_count, st.size_bytes, st.payload_bytes, m.next_frame_id());
                }
                for k in 0..m.frame_count() as u64 {
                    if let Ok(f) = m.frame_by_id(k) {
                        let rd = m.frame_canonical_payload(k).map(|b| b.len() as i64).unwrap_or(-1);
                        eprintln!("   f{k} off={} len={} end={} role={:?} st={:?} read={rd}", f.payload_offset, f.payload_length, f.payload_offset + f.payload_length, f.role, f.status);
                    }
                }
            }
        }
        self.recs.push(OpRecord { i, kind: op.kind_name(), ok, skipped, err, seg, log_b, log_e });
    }

    /// returns (ok, skipped, err)
    fn exec(&mut self, i: usize, op: &Op, log_b: usize) -> (bool, bool, Option<String>) {
        match op {
            Op::TicketRel { seq, slack } => {
                if self.mem.is_none() || self.ro {
                    return (false, true, None);
                }
                // weakest reading: the capacity is granted before the puts it must bound, so a
                // ticket that shrinks the capacity below data already accepted is not generated
                if !self.model.pending.is_empty() {
                    return (false, true, None);
                }
                // capacity = current end of the committed payload region + slack
                let mem = self.mem.as_mut().unwrap();
                let mut end = 4096 + 65536u64;
                for id in 0..mem.frame_count() as u64 {
                    if let Ok(f) = mem.frame_by_id(id) {
                        if f.payload_length > 0 {
                            end = end.max(f.payload_offset + f.payload_length);
                        }
                    }
                }
                let cap = end + *slack;
                self.exec(i, &Op::Ticket { issuer: "sim".into(), seq: *seq, capacity: Some(cap) }, log_b)
            }
            Op::PlantSidecar { name } => {
                shim::pause();
                let _ = std::fs::write(format!("{}/{}", self.dir, name), b"junk");
                shim::resume();
                if !self.planted.contains(name) {
                    self.planted.push(name.clone());
                }
                (true, false, None)
            }
            Op::RemoveSidecar { name } => {
                shim::pause();
                let _ = std::fs::remove_file(format!("{}/{}", self.dir, name));
                shim::resume();
                self.planted.retain(|n| n != name);
                (true, false, None)
            }
            Op::Bind { memory } => {
                if self.mem.is_none() || self.ro {
                    return (false, true, None);
                }
                let b = memvid_core::types::MemoryBinding { memory_id: uuid::Uuid::from_u128(*memory as u128 | (1u128 << 100)), memory_name: format!("mem{memory}"), bound_at: chrono::DateTime::<chrono::Utc>::from_timestamp(1_700_000_000, 0).unwrap(), api_url: "https://example.invalid".into() };
                match self.mem.as_mut().unwrap().set_memory_binding_only(b) {
                    Ok(()) => {
                        self.bound = Some(*memory);
                        (true, false, None)
                    }
                    Err(e) => (false, false, Some(errs(&e))),
                }
            }
            Op::BindPinned => {
                if self.mem.is_none() || self.ro {
                    return (false, true, None);
                }
                let b = memvid_core::types::MemoryBinding { memory_id: uuid::Uuid::parse_str(PINNED_MEMORY).unwrap(), memory_name: "pinned".into(), bound_at: chrono::DateTime::<chrono::Utc>::from_timestamp(1_700_000_000, 0).unwrap(), api_url: "https://example.invalid".into() };
                match self.mem.as_mut().unwrap().set_memory_binding_only(b) {
                    Ok(()) => {
                        self.bound = Some(u64::MAX);
                        (true, false, None)
                    }
                    Err(e) => (false, false, Some(errs(&e))),
                }
            }
            Op::PinnedTicket { tamper } => {
                if self.mem.is_none() || self.ro {
                    return (false, true, None);
                }
                use base64::Engine;
                let sig = base64::engine::general_purpose::STANDARD.decode(PINNED_SIG).unwrap();
                let mut t = memvid_core::types::SignedTicket::new("memvid-dashboard", 9, 86_400, Some(10_737_418_240), uuid::Uuid::parse_str(PINNED_MEMORY).unwrap(), sig);
                match tamper {
                    1 => t.seq_no = 10,
                    2 => t.capacity_bytes = Some(10_737_418_241),
                    3 => t.memory_id = uuid::Uuid::from_u128(7u128 | (1u128 << 100)),
                    4 => t.issuer = "memvid.com".into(),
                    5 => t.expires_in_secs = 86_401,
                    _ => {}
                }
                let authentic = *tamper == 0 || *tamper > 5;
                let names_bound = match (self.bound, tamper) {
                    (Some(u64::MAX), 3) => false,
                    (Some(u64::MAX), _) => true,
                    (Some(7), 3) => true,
                    _ => false,
                };
                let fresh = t.seq_no > self.model.ticket_seq;
                let before = self.mem.as_ref().unwrap().current_ticket();
                let (seq, cap) = (t.seq_no, t.capacity_bytes);
                match self.mem.as_mut().unwrap().apply_signed_ticket(t) {
                    Ok(()) => {
                        if !authentic {
                            self.viol(&["C25"], "tampered-signed-ticket-rejected", format!("the pinned signed ticket with one field changed (tamper {tamper}) was accepted"), i);
                        } else if !names_bound {
                            self.viol(&["C25"], "signed-ticket-names-bound-memory", format!("the authentic ticket for memory {PINNED_MEMORY} was accepted by a memory bound to {:?}", self.bound), i);
                        } else if !fresh {
                            self.viol(&["C25"], "ticket-seq-monotonic", format!("signed ticket seq {seq} accepted after {}", self.model.ticket_seq), i);
                        } else {
                            self.probes_extra("authentic_signed_ticket_accepted", 1);
                        }
                        self.model.ticket_seq = seq;
                        self.model.capacity = cap;
                        self.probes_extra("tickets_accepted", 1);
                        (true, false, None)
                    }
                    Err(e) => {
                        let after = self.mem.as_ref().unwrap().current_ticket();
                        if after.seq_no != before.seq_no || after.capacity_bytes != before.capacity_bytes || after.issuer != before.issuer {
                            self.viol(&["C25"], "rejected-ticket-changes-nothing", format!("rejected signed ticket changed the ticket state: {:?} -> {:?}", before.seq_no, after.seq_no), i);
                        }
                        self.probes_extra(if authentic && names_bound && fresh { "authentic_signed_ticket_rejected" } else if authentic && !names_bound { "authentic_ticket_for_other_memory_rejected" } else { "forged_tickets_rejected" }, 1);
                        (false, false, Some(errs(&e)))
                    }
                }
            }
            Op::SignedTicket { issuer, seq, capacity, memory, sig_seed } => {
                if self.mem.is_none() || self.ro {
                    return (false, true, None);
                }
                // the vendor's private key is not available: every signature here is forged
                let mut r = crate::rng::Rng::new(*sig_seed, "sig");
                let sig: Vec<u8> = (0..64).map(|_| r.below(256) as u8).collect();
                let t = memvid_core::types::SignedTicket::new(issuer.clone(), *seq, 3600, *capacity, uuid::Uuid::from_u128(*memory as u128 | (1u128 << 100)), sig);
                let before = self.mem.as_ref().unwrap().current_ticket();
                match self.mem.as_mut().unwrap().apply_signed_ticket(t) {
                    Ok(()) => {
                        self.viol(&["C25"], "forged-signed-ticket-rejected", format!("a signed ticket with a random 64-byte signature was accepted (seq {seq}, bound={:?})", self.bound), i);
                        (true, false, None)
                    }
                    Err(e) => {
                        let after = self.mem.as_ref().unwrap().current_ticket();
                        if after.seq_no != before.seq_no || after.capacity_bytes != before.capacity_bytes || after.issuer != before.issuer {
                            self.viol(&["C25"], "rejected-ticket-changes-nothing", format!("rejected signed ticket changed the ticket state: {:?} -> {:?}", before.seq_no, after.seq_no), i);
                        }
                        self.probes_extra("forged_tickets_rejected", 1);
                        (false, false, Some(errs(&e)))
                    }
                }
            }
            Op::Create => {
                if self.mem.is_some() {
                    return (false, true, None);
                }
                if self.forbidden_sidecar_present() {
                    return match Memvid::create(&self.path) {
                        Ok(m) => {
                            self.mem = Some(m);
                            self.model = Model::default();
                            self.model.exists = true;
                            self.viol(&["C19"], "sidecar-refused", format!("create ran although a forbidden sidecar exists: {:?}", self.planted), i);
                            (true, false, None)
                        }
                        Err(e) => {
                            self.probes_extra("sidecar_refusals", 1);
                            (false, false, Some(errs(&e)))
                        }
                    };
                }
                match Memvid::create(&self.path) {
                    Ok(m) => {
                        self.mem = Some(m);
                        self.ro = false;
                        self.model = Model::default();
                        self.model.exists = true;
                        self.model.lex_enabled = true;
                        // a fresh memory carries the built-in free-tier ticket with sequence 1
                        self.model.ticket_seq = 1;
                        (true, false, None)
                    }
                    Err(e) => {
                        if !self.error_faults_now() {
                            self.viol(&["C01"], "create-succeeds", format!("create failed: {}", errs(&e)), i);
                        }
                        (false, false, Some(errs(&e)))
                    }
                }
            }
            Op::Open | Op::OpenRo => {
                if self.mem.is_some() || !self.model.exists {
                    return (false, true, None);
                }
                let ro = matches!(op, Op::OpenRo);
                let had_pending = !self.model.pending.is_empty();
                let r = if ro { Memvid::open_read_only(&self.path) } else { Memvid::open(&self.path) };
                if self.forbidden_sidecar_present() {
                    return match r {
                        Ok(m) => {
                            drop(m);
                            self.model.apply_pending();
                            self.viol(&["C19"], "sidecar-refused", format!("open ran although a forbidden sidecar exists: {:?}", self.planted), i);
                            (true, false, None)
                        }
                        Err(e) => {
                            self.probes_extra("sidecar_refusals", 1);
                            (false, false, Some(errs(&e)))
                        }
                    };
                }
                match r {
                    Ok(m) => {
                        self.mem = Some(m);
                        self.ro = ro;
                        if !ro {
                            if had_pending {
                                self.probes.replay_on_open += 1;
                            }
                            self.model.apply_pending();
                            self.probes.reopen += 1;
                        } else {
                            self.probes.ro_opens += 1;
                        }
                        self.reopened_since_mutation = true;
                        self.compare_full(i, if ro { "open_ro" } else { "open" });
                        (true, false, None)
                    }
                    Err(e) => {
                        if !self.error_faults_now() {
                            self.viol(&["C01", "C02"], "open-succeeds", format!("open failed: {}", errs(&e)), i);
                        }
                        (false, false, Some(errs(&e)))
                    }
                }
            }
            Op::Close => {
                let Some(m) = self.mem.take() else { return (false, true, None) };
                let ro = self.ro;
                drop(m);
                if ro && !self.plain {
                    // C18: the file's bytes are what they were when the read-only handle was opened
                    let wr = self.writes_since(log_b);
                    if !wr.is_empty() {
                        self.viol(&["C18"], "read-only-no-writes", format!("dropping a read-only handle issued write-class syscalls: {:?}", wr.iter().take(4).collect::<Vec<_>>()), i);
                    }
                    let now = std::fs::read(&self.path).ok().map(|b| blake3::hash(&b).to_hex().to_string());
                    if self.ro_bytes.is_some() && now != self.ro_bytes {
                        self.viol(&["C18"], "read-only-bytes-unchanged", "the file's bytes changed while only a read-only handle was open".into(), i);
                    }
                    self.ro_bytes = None;
                    self.ro = false;
                }
                if !ro {
                    // Drop commits when dirty
                    self.model.apply_pending();
                }
                (true, false, None)
            }
            Op::Put(spec) => self.do_put(i, spec, None, log_b),
            Op::PutSteer { gap, seed } => {
                if self.mem.is_none() || self.ro {
                    return (false, true, None);
                }
                let Some((head, wal_size)) = self.wal_head() else { return (false, true, None) };
                let room = wal_size.saturating_sub(head);
                let overhead = self.steer_overhead.unwrap_or(400);
                if room < overhead + gap + 16 {
                    return (false, true, None);
                }
                let len = (room - overhead - gap) as usize;
                let spec = PutSpec { pay: Some(Pay::new(PK::Bin, len, *seed)), ts: Some(7), ..Default::default() };
                let r = self.do_put(i, &spec, None, log_b);
                if r.0 {
                    if let Some((h2, ws2)) = self.wal_head() {
                        if ws2 == wal_size && h2 > head {
                            self.steer_overhead = Some((h2 - head).saturating_sub(len as u64));
                            let left = wal_size - h2;
                            self.probes_extra(if left < 48 { "steer_landed_within_48_of_end" } else { "steer_landed_elsewhere" }, 1);
                            if left == 0 {
                                self.probes_extra("steer_filled_region_exactly", 1);
                            }
                        } else {
                            self.probes_extra("steer_put_checkpointed_or_grew", 1);
                        }
                    }
                }
                r
            }
            Op::Update { target, spec } => self.do_put(i, spec, Some(*target), log_b),
            Op::UpdateUri { uri, spec } => match self.resolve_uri(uri) {
                Some(t) => self.do_put(i, spec, Some(t), log_b),
                None => (false, true, None),
            },
            Op::DeleteUri { uri } => match self.resolve_uri(uri) {
                Some(t) => self.exec(i, &Op::Delete { target: t }, log_b),
                None => (false, true, None),
            },
            Op::Delete { target } => {
                if self.mem.is_none() || self.ro {
                    return (false, true, None);
                }
                let expect_ok = self.model.active_committed(*target);
                let r = self.mem.as_mut().unwrap().delete_frame(*target);
                match r {
                    Ok(_) => {
                        if !expect_ok {
                            self.viol(&["C01", "C08"], "delete-rejects-inactive", format!("delete of non-active/unknown frame {target} succeeded"), i);
                            self.model.unpredictable = true;
                        }
                        self.model.pending.push(POp::Tombstone(*target));
                        if self.model.batch_skip_sync {
                            self.model.undurable_pending += 1;
                        }
                        self.probes.deletes += 1;
                        self.after_append(log_b);
                        (true, false, None)
                    }
                    Err(e) => {
                        if expect_ok && !self.error_faults_now() {
                            self.viol(&["C01"], "delete-succeeds", format!("delete of active frame {target} failed: {}", errs(&e)), i);
                        }
                        (false, false, Some(errs(&e)))
                    }
                }
            }
            Op::Commit => {
                if self.mem.is_none() || self.ro {
                    return (false, true, None);
                }
                match self.mem.as_mut().unwrap().commit() {
                    Ok(()) => {
                        self.model.apply_pending();
                        self.compare_full(i, "commit");
                        (true, false, None)
                    }
                    Err(e) => {
                        if !self.error_faults_now() {
                            self.viol(&["C01", "C07"], "commit-succeeds", format!("commit failed: {}", errs(&e)), i);
                        }
                        (false, false, Some(errs(&e)))
                    }
                }
            }
            Op::Abandon => {
                if self.mem.is_none() {
                    return (false, true, None);
                }
                // process death: every completed syscall persists
                let img = if self.plain {
                    disk::read_dir_image(&self.dir)
                } else {
                    let (log, base) = shim::with_rec(|r| r.log.clone()).map(|l| (l, self.base.clone())).unwrap();
                    disk::build(&log, &base, &CrashSpec::Process { cut: log.len(), partial: None })
                };
                if self.ro {
                    // a dying reader changes nothing
                }
                self.model.lose_uncommitted_tracks();
                self.switch_to_image(img);
                self.probes.abandon += 1;
                (true, false, None)
            }
            Op::Check => {
                if self.mem.is_none() {
                    return (false, true, None);
                }
                self.compare_full(i, "check");
                (true, false, None)
            }
            Op::Vacuum => {
                if self.mem.is_none() || self.ro {
                    return (false, true, None);
                }
                match self.mem.as_mut().unwrap().vacuum() {
                    Ok(()) => {
                        self.model.apply_pending();
                        self.probes.vacuum += 1;
                        self.verify_expect_next = Some("C42");
                        self.attrib = Some("C42");
                        self.compare_full(i, "vacuum");
                        (true, false, None)
                    }
                    Err(e) => {
                        if !self.error_faults_now() {
                            self.viol(&["C42"], "vacuum-succeeds", format!("vacuum failed: {}", errs(&e)), i);
                        }
                        (false, false, Some(errs(&e)))
                    }
                }
            }
            Op::Doctor(d) => {
                if self.mem.is_some() || !self.model.exists {
                    return (false, true, None);
                }
                let opts = DoctorOptions { rebuild_time_index: d.time, rebuild_lex_index: d.lex, rebuild_vec_index: d.vec, vacuum: d.vacuum, dry_run: d.dry_run, quiet: true };
                match Memvid::doctor(&self.path, opts) {
                    Ok(_rep) => {
                        if !d.dry_run {
                            self.model.apply_pending();
                        }
                        self.probes.doctor += 1;
                        if !d.dry_run {
                            self.verify_expect_next = Some(if d.vacuum { "C42" } else { "C21" });
                            if d.vacuum {
                                self.attrib = Some("C42");
                            }
                        }
                        (true, false, None)
                    }
                    Err(e) => (false, false, Some(errs(&e))),
                }
            }
            Op::Verify { deep } => {
                if !self.model.exists || (self.mem.is_some() && !self.ro) {
                    return (false, true, None);
                }
                match Memvid::verify(&self.path, *deep) {
                    Ok(rep) => {
                        // "verifies as Passed" is stated for a file as vacuum / doctor leave it; any
                        // writable open or mutation after that clears the expectation
                        if let Some(p) = self.verify_expect {
                            self.probes_extra("verify_after_maintenance", 1);
                            if rep.overall_status != VerificationStatus::Passed && self.model.pending.is_empty() && !self.error_faults {
                                let failed: Vec<String> = rep.checks.iter().filter(|c| c.status == VerificationStatus::Failed).map(|c| format!("{}:{:?}", c.name, c.details)).collect();
                                self.viol(&[p], "verify-passes", format!("verify(deep={deep}) = {:?} right after {}: {}", rep.overall_status, if p == "C42" { "vacuum" } else { "doctor" }, failed.join("; ")), i);
                            }
                        }
                        (true, false, None)
                    }
                    Err(e) => {
                        if !self.error_faults_now() {
                            self.viol(&["C42", "C21"], "verify-runs", format!("verify failed: {}", errs(&e)), i);
                        }
                        (false, false, Some(errs(&e)))
                    }
                }
            }
            Op::EnableLex => {
                if self.mem.is_none() || self.ro {
                    return (false, true, None);
                }
                match self.mem.as_mut().unwrap().enable_lex() {
                    Ok(()) => (true, false, None),
                    Err(e) => (false, false, Some(errs(&e))),
                }
            }
            Op::EnableVec => {
                if self.mem.is_none() || self.ro {
                    return (false, true, None);
                }
                match self.mem.as_mut().unwrap().enable_vec() {
                    Ok(()) => (true, false, None),
                    Err(e) => (false, false, Some(errs(&e))),
                }
            }
            Op::Ticket { issuer, seq, capacity } => {
                if self.mem.is_none() || self.ro {
                    return (false, true, None);
                }
                let mut t = Ticket::new(issuer.clone(), *seq);
                t.capacity_bytes = *capacity;
                let expect_ok = *seq > self.model.ticket_seq;
                let r = self.mem.as_mut().unwrap().apply_ticket(t);
                match r {
                    Ok(()) => {
                        if !expect_ok {
                            self.viol(&["C25"], "ticket-seq-monotonic", format!("ticket seq {seq} accepted after {}", self.model.ticket_seq), i);
                        }
                        self.model.ticket_seq = *seq;
                        // no capacity in the ticket = back to the tier default
                        self.model.capacity = *capacity;
                        self.probes_extra("tickets_accepted", 1);
                        (true, false, None)
                    }
                    Err(e) => {
                        // the statement is an only-if: a rejection is never a violation by itself
                        if expect_ok {
                            self.probes_extra("fresh_tickets_rejected", 1);
                        } else {
                            self.probes_extra("stale_tickets_rejected", 1);
                        }
                        (false, false, Some(errs(&e)))
                    }
                }
            }
            Op::BeginBatch(b) => {
                if self.mem.is_none() || self.ro {
                    return (false, true, None);
                }
                let mut o = PutManyOpts::default();
                o.compression_level = b.compression_level;
                o.disable_auto_checkpoint = b.disable_auto_checkpoint;
                o.skip_sync = b.skip_sync;
                o.wal_pre_size_bytes = b.wal_pre_size;
                match self.mem.as_mut().unwrap().begin_batch(o) {
                    Ok(()) => {
                        self.model.batch_skip_sync = b.skip_sync;
                        (true, false, None)
                    }
                    Err(e) => (false, false, Some(errs(&e))),
                }
            }
            Op::EndBatch => {
                if self.mem.is_none() || self.ro {
                    return (false, true, None);
                }
                match self.mem.as_mut().unwrap().end_batch() {
                    Ok(()) => {
                        self.model.batch_skip_sync = false;
                        self.model.undurable_pending = 0;
                        self.probes_extra("batches_ended", 1);
                        (true, false, None)
                    }
                    Err(e) => (false, false, Some(errs(&e))),
                }
            }
            Op::CommitSkipIndexes => {
                if self.mem.is_none() || self.ro {
                    return (false, true, None);
                }
                match self.mem.as_mut().unwrap().commit_skip_indexes() {
                    Ok(()) => {
                        self.model.apply_pending();
                        (true, false, None)
                    }
                    Err(e) => (false, false, Some(errs(&e))),
                }
            }
            Op::FinalizeIndexes => {
                if self.mem.is_none() || self.ro {
                    return (false, true, None);
                }
                match self.mem.as_mut().unwrap().finalize_indexes() {
                    Ok(()) => (true, false, None),
                    Err(e) => (false, false, Some(errs(&e))),
                }
            }
            Op::Search(_) | Op::Timeline(_) | Op::SearchVec { .. } => crate::reads::exec_read(self, i, op),
            Op::AclSearch { .. } => crate::acl::exec_acl(self, i, op),
            Op::PutCards(_) | Op::CardQuery { .. } | Op::MeshAdd { .. } => crate::cards::exec_cards(self, i, op),
            Op::Wal(_) => (false, true, None),
            Op::Open2 | Op::Doctor2 => {
                // C17: only meaningful while a writable handle is alive
                if self.mem.is_none() || self.ro {
                    return (false, true, None);
                }
                let what = self.lock_context();
                let doctor = matches!(op, Op::Doctor2);
                let r: Result<Option<Memvid>, MemvidError> = if doctor {
                    // a report with status Failed (lock contention) is a refusal, not a success
                    Memvid::doctor(&self.path, DoctorOptions { rebuild_time_index: false, rebuild_lex_index: false, rebuild_vec_index: false, vacuum: false, dry_run: false, quiet: true }).and_then(|rep| if rep.status == memvid_core::DoctorStatus::Failed { Err(MemvidError::Lock(format!("doctor reported Failed: {:?}", rep.findings.iter().map(|f| f.message.clone()).collect::<Vec<_>>()))) } else { Ok(None) })
                } else {
                    Memvid::open(&self.path).map(Some)
                };
                if doctor && r.is_ok() && self.writes_since(log_b).is_empty() {
                    // a doctor run that found nothing to do only read the file: not a writable open
                    self.probes_extra("second_doctor_read_only", 1);
                    return (true, false, None);
                }
                match r {
                    Ok(m2) => {
                        // the second writer got in: everything the first handle believes is now stale
                        self.model.unpredictable = true;
                        let oracle = if doctor { "doctor-excluded-while-writer-alive" } else { "second-writer-excluded" };
                        self.viol_sig(&["C17"], oracle, &what, format!("{} of the same path succeeded while a writable handle is alive ({what})", if doctor { "Memvid::doctor" } else { "a second writable Memvid::open" }), i);
                        if let Some(mut m2) = m2 {
                            // consequence clause: let both writers commit and see whether one is lost
                            let tok2 = format!("second-writer-{i}");
                            let o = PutOptions::default();
                            let a = m2.put_bytes_with_options(tok2.as_bytes(), o).is_ok() && m2.commit().is_ok();
                            drop(m2);
                            let tok1 = format!("first-writer-{i}");
                            let b = self.mem.as_mut().map(|m| m.put_bytes_with_options(tok1.as_bytes(), PutOptions::default()).is_ok() && m.commit().is_ok()).unwrap_or(false);
                            if a && b {
                                if let Some(m) = self.mem.take() {
                                    drop(m);
                                }
                                if let Ok(mut m3) = Memvid::open(&self.path) {
                                    let n = m3.frame_count() as u64;
                                    let mut seen2 = false;
                                    for id in 0..n {
                                        if let Ok(b) = m3.frame_canonical_payload(id) {
                                            if b == tok2.as_bytes() {
                                                seen2 = true;
                                            }
                                        }
                                    }
                                    if !seen2 {
                                        self.viol_sig(&["C17"], "commit-lost-to-concurrent-writer", &what, "both writers committed successfully; the second writer's acknowledged commit is gone after reopen".into(), i);
                                    }
                                    self.mem = Some(m3);
                                }
                            }
                        }
                        (true, false, None)
                    }
                    Err(e) => {
                        if doctor && !self.writes_since(log_b).is_empty() {
                            // observed, not judged: the refused doctor's planner re-writes the WAL's
                            // zero sentinel; at API-call granularity that is idempotent and the
                            // property statement does not forbid it
                            self.probes_extra("refused_doctor_sentinel_writes", 1);
                        }
                        self.probes_extra(if doctor { "second_doctor_refused" } else { "second_open_refused" }, 1);
                        self.probes_extra(&format!("refused_{}", what.replace(['-', ':'], "_")), 1);
                        (false, false, Some(errs(&e)))
                    }
                }
            }
            Op::LockProbe => {
                if self.mem.is_none() || self.ro {
                    return (false, true, None);
                }
                let what = self.lock_context();
                let cpath = std::ffi::CString::new(self.path.clone()).unwrap();
                let got = unsafe {
                    let fd = libc::open(cpath.as_ptr(), libc::O_RDWR);
                    if fd < 0 {
                        return (false, false, Some("probe open failed".into()));
                    }
                    let mut rc;
                    loop {
                        rc = libc::flock(fd, libc::LOCK_EX | libc::LOCK_NB);
                        if rc == 0 || *libc::__errno_location() != libc::EINTR {
                            break;
                        }
                    }
                    if rc == 0 {
                        libc::flock(fd, libc::LOCK_UN);
                    }
                    libc::close(fd);
                    rc == 0
                };
                self.probes_extra("flock_probes", 1);
                if got {
                    self.viol_sig(&["C17"], "exclusive-lock-held", &what, format!("a third party obtained flock(LOCK_EX|LOCK_NB) on the path while a writable handle is alive ({what})"), i);
                }
                (true, false, None)
            }
            Op::RoContend { steps } => {
                if self.mem.is_some() || !self.model.exists {
                    return (false, true, None);
                }
                let (a, b) = match (Memvid::open_read_only(&self.path), Memvid::open_read_only(&self.path)) {
                    (Ok(a), Ok(b)) => (a, b),
                    _ => return (false, true, None),
                };
                let mut hs = [Some(a), Some(b)];
                let mut writer = [false, false];
                let mut renamed = false;
                let base_seq = self.model.ticket_seq.max(0) + 1000;
                for (k, (h, act)) in steps.iter().enumerate() {
                    let h = (*h as usize) & 1;
                    let lb = shim::log_len();
                    let Some(m) = hs[h].as_mut() else { continue };
                    match act {
                        0 | 2 => {
                            let ok = if *act == 0 {
                                // apply_ticket goes through ensure_writable on a read-only handle
                                // (a put is refused earlier: the handle's log is read-only)
                                m.apply_ticket(Ticket::new(format!("contender-{h}"), base_seq + k as i64)).is_ok()
                            } else {
                                let tok = format!("contender-{h}-{k}-{i}");
                                m.put_bytes_with_options(tok.as_bytes(), PutOptions::default()).is_ok()
                            };
                            self.probes_extra(if ok { "contend_put_ok" } else { "contend_put_refused" }, 1);
                            if ok {
                                if writer[1 - h] {
                                    let what = if renamed { "after-commit" } else { "ro-upgrade" };
                                    self.viol_sig(&["C17"], "second-writer-excluded", what, format!("handle {h} (opened read-only) completed a put at step {k} while the other handle is a live writer ({what})"), i);
                                }
                                writer[h] = true;
                            }
                        }
                        _ => {
                            if m.downgrade_to_shared().is_ok() {
                                writer[h] = false;
                            }
                        }
                    }
                    if self.log_range_has(lb, Kind::Rename) {
                        renamed = true;
                    }
                }
                self.probes_extra("ro_contentions", 1);
                hs[0].take();
                hs[1].take();
                // what the two handles left behind is outside the reference model
                self.model.unpredictable = true;
                (true, false, None)
            }
            Op::Downgrade => {
                if self.mem.is_none() || self.ro {
                    return (false, true, None);
                }
                match self.mem.as_mut().unwrap().downgrade_to_shared() {
                    Ok(()) => (true, false, None),
                    Err(e) => (false, false, Some(errs(&e))),
                }
            }
        }
    }

    /// C17 signature class: has the live handle replaced the file (commit, automatic checkpoint,
    /// vacuum) since it was opened?
    fn lock_context(&self) -> String {
        if self.log_range_has(self.handle_opened_at, Kind::Rename) { "after-commit".to_string() } else { "before-first-commit".to_string() }
    }

    /// (write head relative to the log region's start, region size), read from the file the way the
    /// library's own scan does: records from the region start up to the first end-of-log sentinel.
    pub fn wal_head(&self) -> Option<(u64, u64)> {
        shim::pause();
        let bytes = std::fs::read(&self.path);
        shim::resume();
        let b = bytes.ok()?;
        if b.len() < 4096 {
            return None;
        }
        let wal_off = u64::from_le_bytes(b[16..24].try_into().ok()?) as usize;
        let wal_size = u64::from_le_bytes(b[24..32].try_into().ok()?) as usize;
        if wal_off != 4096 || wal_off + wal_size > b.len() {
            return None;
        }
        let mut cur = 0usize;
        while cur + 48 <= wal_size {
            let h = &b[wal_off + cur..wal_off + cur + 48];
            let seq = u64::from_le_bytes(h[..8].try_into().ok()?);
            let len = u32::from_le_bytes(h[8..12].try_into().ok()?) as usize;
            if seq == 0 && len == 0 {
                break;
            }
            if len == 0 || cur + 48 + len > wal_size {
                return None;
            }
            cur += 48 + len;
        }
        Some((cur as u64, wal_size as u64))
    }

    fn forbidden_sidecar_present(&self) -> bool {
        let f = [format!("{FILE}-wal"), format!("{FILE}-shm"), format!("{FILE}-lock"), format!("{FILE}-journal"), format!(".{FILE}.wal"), format!(".{FILE}.shm"), format!(".{FILE}.lock"), format!(".{FILE}.journal")];
        self.planted.iter().any(|p| f.contains(p))
    }

    /// Write-class syscalls on the simulated directory since log index `b` (markers excluded).
    fn writes_since(&self, b: usize) -> Vec<String> {
        shim::with_rec(|r| {
            r.log[b.min(r.log.len())..]
                .iter()
                .filter(|o| matches!(o.kind, Kind::Write | Kind::Trunc | Kind::Create | Kind::Rename | Kind::Unlink))
                .map(|o| format!("{:?}@{}+{}{}", o.kind, o.off, o.len, if o.name.is_empty() { String::new() } else { format!(" {}", o.name) }))
                .collect()
        })
        .unwrap_or_default()
    }

    /// Invariants evaluated after every API call that ran (C18, C19, C24, C25).
    fn post_op_invariants(&mut self, i: usize, op: &Op, ok: bool, err: Option<&str>, log_b: usize) {
        if self.plain {
            return;
        }
        if ok && (op.is_mutation() && !matches!(op, Op::Vacuum)) || matches!(op, Op::Create | Op::PutCards(_) | Op::MeshAdd { .. } | Op::BeginBatch(_) | Op::EnableLex | Op::EnableVec) {
            self.attrib = None;
        }
        // bookkeeping: is the file still exactly as vacuum / doctor left it?
        match op {
            Op::Vacuum | Op::Doctor(_) => {
                if ok {
                    self.verify_expect = self.verify_expect_next.take();
                }
            }
            Op::Close | Op::Verify { .. } | Op::Check | Op::OpenRo | Op::Search(_) | Op::Timeline(_) | Op::SearchVec { .. } | Op::AclSearch { .. } | Op::CardQuery { .. } => {}
            _ => self.verify_expect = None,
        }
        if matches!(op, Op::Commit | Op::Open | Op::Close | Op::Vacuum | Op::Abandon) {
            self.applied_puts_last_commit = self.puts_since_commit;
            self.puts_since_commit = 0;
        }
        // ---- C19: nothing but the caller's .mv2 files in the directory
        let listing = disk::list_dir(&self.dir);
        let unexpected: Vec<&String> = listing.iter().filter(|n| n.as_str() != FILE && !self.planted.contains(n)).collect();
        if !unexpected.is_empty() {
            let class = if ok { "after-success" } else { "after-error" };
            self.viol_sig(&["C19"], "single-file", class, format!("after {} ({}): directory holds {:?}", op.kind_name(), if ok { "ok" } else { "error" }, listing), i);
        }
        self.probes_extra("dir_listings", 1);
        // ... and the memory itself is still there, whatever the call returned
        if self.model.exists && !listing.iter().any(|n| n == FILE) && !matches!(op, Op::Abandon) {
            self.viol_sig(&["C19", "C01"], "memory-file-present", if ok { "after-success" } else { "after-error" }, format!("after {} ({}): the memory file is gone; directory holds {:?}", op.kind_name(), if ok { "ok" } else { "error" }, listing), i);
        }
        // ---- C18: a read-only handle never writes
        if self.ro && self.mem.is_some() && !matches!(op, Op::OpenRo) {
            let wr = self.writes_since(log_b);
            if !wr.is_empty() {
                self.viol(&["C18"], "read-only-no-writes", format!("{} on a read-only handle issued write-class syscalls: {:?}", op.kind_name(), wr.iter().take(4).collect::<Vec<_>>()), i);
            }
        }
        if matches!(op, Op::OpenRo) && ok {
            let wr = self.writes_since(log_b);
            if !wr.is_empty() {
                self.viol(&["C18"], "read-only-no-writes", format!("open_read_only issued write-class syscalls: {:?}", wr.iter().take(4).collect::<Vec<_>>()), i);
            }
            self.ro_bytes = std::fs::read(&self.path).ok().map(|b| blake3::hash(&b).to_hex().to_string());
            self.probes_extra("ro_byte_snapshots", 1);
        }
        // verify() is a read API too (static, opens the file itself)
        if matches!(op, Op::Verify { .. }) {
            let wr = self.writes_since(log_b);
            if !wr.is_empty() {
                self.viol(&["C18"], "verify-no-writes", format!("verify issued write-class syscalls: {:?}", wr.iter().take(4).collect::<Vec<_>>()), i);
            }
        }
        // ---- C25 / C24: a rejected ticket or a refused put changes nothing
        if !ok {
            let rejected_ticket = matches!(op, Op::Ticket { .. } | Op::SignedTicket { .. } | Op::PinnedTicket { .. });
            let capacity = err.is_some_and(|e| e.contains("apacity"));
            if rejected_ticket || (capacity && matches!(op, Op::Put(_) | Op::Update { .. } | Op::UpdateUri { .. })) {
                let wr = self.writes_since(log_b);
                if !wr.is_empty() && !self.error_faults_now() {
                    let p: &[&str] = if rejected_ticket { &["C25"] } else { &["C24"] };
                    self.viol(p, "rejected-call-writes-nothing", format!("{} was rejected ({}) but wrote: {:?}", op.kind_name(), err.unwrap_or(""), wr.iter().take(4).collect::<Vec<_>>()), i);
                }
                self.probes_extra("rejected_calls_monitored", 1);
            }
        }
        // ---- C24: payloads never end beyond the granted capacity
        if let (Some(cap), Some(mem)) = (self.model.capacity, self.mem.as_mut()) {
            if matches!(op, Op::Commit | Op::Put(_) | Op::Update { .. } | Op::UpdateUri { .. } | Op::Open | Op::Close | Op::Vacuum) {
                let n = mem.frame_count() as u64;
                let mut worst: Option<(u64, u64)> = None;
                for id in 0..n {
                    if let Ok(f) = mem.frame_by_id(id) {
                        let end = f.payload_offset + f.payload_length;
                        if f.payload_length > 0 && end > cap && worst.is_none_or(|w| end > w.1) {
                            worst = Some((id, end));
                        }
                    }
                }
                let reported = mem.stats().ok().map(|st| st.capacity_bytes);
                self.probes_extra("capacity_checks", 1);
                if let Some((id, end)) = worst {
                    let sig = if self.applied_puts_last_commit > 1 { "several-pending-puts" } else { "placed-after-index-region" };
                    self.viol_sig(&["C24"], "payload-within-capacity", sig, format!("after {}: frame {id} payload ends at {end}, capacity is {cap} ({} puts were applied by the last commit)", op.kind_name(), self.applied_puts_last_commit), i);
                }
                if let Some(rc) = reported {
                    if rc != cap {
                        self.viol(&["C24", "C25"], "capacity-reported", format!("stats.capacity_bytes={rc} but the accepted ticket granted {cap}"), i);
                    }
                }
            }
        }
    }

    /// The committed, active, non-chunk frame currently carrying `uri` (for generator ops that
    /// name documents rather than frame ids).
    pub fn resolve_uri(&self, uri: &str) -> Option<u64> {
        self.model.frames.iter().rev().find(|f| f.st == St::Active && f.role != 1 && f.chunks == 0 && f.uri.as_deref() == Some(uri)).map(|f| f.id)
    }

    pub fn error_faults_now(&self) -> bool {
        self.error_faults || shim::with_rec(|r| r.errors_fired > 0).unwrap_or(false)
    }

    fn after_append(&mut self, log_b: usize) {
        self.observe_wal(log_b);
        let plain_ckpt = self.plain && self.mem.as_ref().is_some_and(|m| m.frame_count() as u64 == self.model.frames.len() as u64 + self.model.pending_inserts() && self.model.pending_inserts() > 0);
        if plain_ckpt || self.log_range_has(log_b, Kind::Rename) {
            // a staging rename inside a put/delete = automatic checkpoint
            self.probes.auto_checkpoint += 1;
            self.model.apply_pending();
        }
    }

    fn do_put(&mut self, i: usize, spec: &PutSpec, target: Option<u64>, log_b: usize) -> (bool, bool, Option<String>) {
        if self.mem.is_none() || self.ro {
            return (false, true, None);
        }
        let payload: Option<Vec<u8>> = spec.pay.as_ref().map(|p| p.bytes());
        if target.is_none() && payload.is_none() {
            return (false, true, None);
        }
        let mut opts = put_options(spec);
        if let Some(pu) = &spec.parent_uri {
            opts.parent_id = self.resolve_uri(pu);
        }
        // C24: an incompressible payload that cannot fit below the granted capacity must be refused
        let mut must_refuse = false;
        if let (Some(cap), Some(p), Some(pay)) = (self.model.capacity, &payload, &spec.pay) {
            let plain_text = matches!(pay.kind, PK::Text | PK::LongText) && p.len() >= 400;
            if (pay.kind == PK::Bin && chunk_free(p)) || plain_text {
                let mem = self.mem.as_mut().unwrap();
                let mut end = 4096 + 65536u64;
                for id in 0..mem.frame_count() as u64 {
                    if let Ok(f) = mem.frame_by_id(id) {
                        if f.payload_length > 0 {
                            end = end.max(f.payload_offset + f.payload_length);
                        }
                    }
                }
                // random bytes do not compress: the stored size is at least the payload size.
                // Text made of words drawn at random from a 30-word vocabulary (plus a unique
                // token) carries more than half a bit per character, so whatever the encoding and
                // whether it is stored whole or as chunk frames it needs more than len/40 bytes.
                let need = if plain_text { p.len() as u64 / 40 } else { p.len() as u64 };
                must_refuse = end + need > cap + 64;
            }
        }
        self.must_refuse = must_refuse;
        let predicted_next = self.model.next_id();
        let real_next = self.mem.as_ref().unwrap().next_frame_id();
        if !self.model.unpredictable && real_next != predicted_next {
            self.viol(&["C06"], "next-frame-id", format!("next_frame_id()={real_next}, model predicts {predicted_next}"), i);
        }
        // chunk plan as the library announces it
        let chunks: Option<Vec<String>> = payload.as_ref().and_then(|p| self.mem.as_ref().unwrap().preview_chunks(p));
        // C07: for unstructured text the chunk texts concatenate to the normalized text
        if let (Some(ch), Some(p), Some(pay)) = (&chunks, &payload, &spec.pay) {
            if matches!(pay.kind, PK::LongText | PK::Text | PK::Unicode) {
                if let Ok(s) = std::str::from_utf8(p) {
                    if let Some(n) = memvid_core::normalize_text(s, usize::MAX) {
                        if ch.concat() != n.text {
                            self.viol(&["C07"], "chunks-concat-to-normalized-text", format!("chunk texts concatenate to {} bytes, normalized text has {} bytes", ch.concat().len(), n.text.len()), i);
                        }
                        self.probes_extra("normalized_concat_checks", 1);
                    }
                }
            }
        }
        let emb = spec.emb.clone();
        // expectations
        let mut expect_ok = true;
        let mut old: Option<MFrame> = None;
        if let Some(t) = target {
            if !self.model.active_committed(t) {
                expect_ok = false;
            } else {
                old = Some(self.model.frames[t as usize].clone());
            }
        }
        let dim_in = emb.as_ref().filter(|e| !e.is_empty()).map(|e| e.len() as u32).or_else(|| {
            spec.chunk_embs.as_ref().and_then(|v| v.iter().find(|e| !e.is_empty()).map(|e| e.len() as u32))
        });
        let mut dim_conflict = false;
        if let (Some(d), Some(md)) = (dim_in, self.model.vec_dim) {
            if d != md {
                dim_conflict = true;
            }
        }
        if let Some(v) = &spec.chunk_embs {
            let mut d0 = emb.as_ref().filter(|e| !e.is_empty()).map(|e| e.len());
            for e in v.iter().filter(|e| !e.is_empty()) {
                match d0 {
                    None => d0 = Some(e.len()),
                    Some(x) if x != e.len() => dim_conflict = true,
                    _ => {}
                }
            }
        }
        let mem = self.mem.as_mut().unwrap();
        let r = if let Some(t) = target {
            mem.update_frame(t, payload.clone(), opts, emb.clone())
        } else if let Some(ce) = &spec.chunk_embs {
            mem.put_with_chunk_embeddings(payload.as_ref().unwrap(), emb.clone(), ce.clone(), opts)
        } else if let Some(e) = &emb {
            mem.put_with_embedding_and_options(payload.as_ref().unwrap(), e.clone(), opts)
        } else {
            mem.put_bytes_with_options(payload.as_ref().unwrap(), opts)
        };
        match r {
            Ok(_seq) => {
                if !expect_ok {
                    self.viol(&["C01", "C08"], "update-rejects-inactive", format!("update of non-active/unknown frame {:?} succeeded", target), i);
                    self.model.unpredictable = true;
                    return (true, false, None);
                }
                if dim_conflict {
                    self.viol(&["C13"], "dimension-checked", "put with a conflicting embedding dimension succeeded".into(), i);
                }
                if self.must_refuse {
                    self.viol(&["C24"], "oversized-put-refused", format!("an incompressible {}-byte payload that cannot fit below the granted capacity {:?} was accepted", payload.as_ref().map(|p| p.len()).unwrap_or(0), self.model.capacity), i);
                }
                self.puts_since_commit += 1;
                if let Some(d) = dim_in {
                    if self.model.vec_dim.is_none() {
                        self.model.vec_dim = Some(d);
                    }
                }
                let token = spec.pay.as_ref().map(|p| p.token()).unwrap_or_default();
                let mut group: Vec<MFrame> = Vec::new();
                let inherit = |a: &Option<String>, b: Option<&Option<String>>| -> Option<String> { a.clone().or_else(|| b.cloned().flatten()) };
                let o = old.as_ref();
                let uri = match (&spec.uri, o) {
                    (Some(u), _) => Some(u.clone()),
                    (None, Some(of)) => Some(of.uri_str()),
                    (None, None) => None,
                };
                let title = inherit(&spec.title, o.map(|f| &f.title));
                let (payload_expect, whole, nchunks): (Option<Vec<u8>>, bool, usize) = match (&payload, &chunks, o) {
                    (Some(_), Some(ch), _) => (Some(ch.concat().into_bytes()), false, ch.len()),
                    (Some(p), None, _) => (Some(p.clone()), true, 0),
                    (None, _, Some(of)) => {
                        if of.chunks > 0 || !of.whole {
                            // re-using a chunked parent's (empty) payload: outside what the model predicts
                            self.model.unpredictable = true;
                        }
                        (of.payload.clone(), of.whole, 0)
                    }
                    (None, _, None) => (None, true, 0),
                };
                let parent = MFrame {
                    id: 0,
                    uri,
                    st: St::Active,
                    role: spec.role,
                    parent: None,
                    supersedes: target,
                    superseded_by: None,
                    ts: spec.ts.or(o.and_then(|f| f.ts)),
                    payload_len: payload_expect.as_ref().map(|p| p.len()).unwrap_or(0),
                    payload: payload_expect,
                    emb: emb.clone().filter(|e| !e.is_empty()).or_else(|| if target.is_some() { o.and_then(|f| f.emb.clone()) } else { None }),
                    token: if token.is_empty() { o.map(|f| f.token.clone()).unwrap_or_default() } else { token.clone() },
                    put_op: i,
                    chunks: nchunks,
                    title: title.clone(),
                    kind: inherit(&spec.kind, o.map(|f| &f.kind)),
                    track: inherit(&spec.track, o.map(|f| &f.track)),
                    tags: if spec.lib_defaults { None } else if spec.tags.is_empty() { match o { Some(f) => f.tags.clone(), None => Some(vec![]) } } else { Some(spec.tags.clone()) },
                    labels: if spec.lib_defaults { None } else if spec.labels.is_empty() { match o { Some(f) => f.labels.clone(), None => Some(vec![]) } } else { Some(spec.labels.clone()) },
                    acl_allow: None,
                    queued: spec.instant_index && spec.enable_embedding && target.is_none(),
                    extra: if spec.extra.is_empty() { o.map(|f| f.extra.clone()).unwrap_or(Some(Default::default())) } else { Some(spec.extra.clone()) },
                    whole,
                    ts_candidates: Vec::new(),
                };
                let puri = parent.uri.clone();
                let pts = parent.ts;
                let (pkind, ptrack) = (parent.kind.clone(), parent.track.clone());
                let (ptags, plabels) = (parent.tags.clone(), parent.labels.clone());
                group.push(parent);
                if let Some(ch) = &chunks {
                    self.probes.chunked_puts += 1;
                    let total = ch.len();
                    for (k, c) in ch.iter().enumerate() {
                        let cemb = spec.chunk_embs.as_ref().and_then(|v| v.get(k).cloned()).filter(|e| !e.is_empty());
                        group.push(MFrame {
                            id: 0,
                            uri: puri.as_ref().map(|u| format!("{u}#page-{}", k + 1)),
                            st: St::Active,
                            role: 1,
                            parent: None,
                            supersedes: None,
                            superseded_by: None,
                            ts: pts,
                            payload_len: c.len(),
                            payload: Some(c.clone().into_bytes()),
                            emb: cemb,
                            token: token.clone(),
                            put_op: i,
                            chunks: 0,
                            title: title.as_ref().map(|t| format!("{t} (page {}/{})", k + 1, total)),
                            kind: pkind.clone(),
                            track: ptrack.clone(),
                            tags: ptags.clone(),
                            labels: plabels.clone(),
                            acl_allow: None,
                            queued: false,
                            extra: None,
                            whole: true,
                            ts_candidates: Vec::new(),
                        });
                    }
                }
                if target.is_some() {
                    self.probes.updates += 1;
                }
                self.model.pending.push(POp::Insert(group));
                if self.model.batch_skip_sync {
                    self.model.undurable_pending += 1;
                }
                self.after_append(log_b);
                (true, false, None)
            }
            Err(e) => {
                let cap = matches!(e, MemvidError::CapacityExceeded { .. });
                let dimerr = matches!(e, MemvidError::VecDimensionMismatch { .. });
                if expect_ok && !cap && !(dimerr && dim_conflict) && !self.error_faults_now() {
                    self.viol(&["C01", "C07"], "put-succeeds", format!("{} failed: {}", if target.is_some() { "update" } else { "put" }, errs(&e)), i);
                }
                (false, false, Some(errs(&e)))
            }
        }
    }

    /// Full comparison of the live handle with the model's committed table.
    pub fn compare_full(&mut self, i: usize, at: &str) {
        if self.model.unpredictable {
            return;
        }
        let Some(mem) = self.mem.as_mut() else { return };
        self.probes.full_compares += 1;
        if self.reopened_since_mutation {
            self.probes.compares_after_reopen += 1;
        }
        let (out, n) = crate::oracle::diff_model(mem, &self.model, self.ro, at);
        self.probes.frames_compared += n;
        for m in out {
            self.viol(&m.props, m.oracle, m.msg, i);
        }
        crate::reads::check_vec_membership(self, i, at);
        crate::cards::check_tracks(self, i, at);
    }
}
