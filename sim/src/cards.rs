//! C26 / C27: memory cards, the logic mesh and the enrichment queue.
//! Executor of the card operations, their reference semantics and the track comparisons that run
//! inside every full model comparison (commit, reopen, read-only open, recovery).
use crate::model::St;
use crate::ops::*;
use crate::rng::Rng;
use crate::world::World;
use memvid_core::{EntityKind, LinkType, MemoryCard, MemoryCardBuilder, MemoryKind, MeshEdge, MeshNode, VersionRelation};
use std::collections::BTreeSet;

pub const SIM_ENGINE: &str = "sim";

fn kind_of(k: u8) -> MemoryKind {
    match k % 7 {
        0 => MemoryKind::Fact,
        1 => MemoryKind::Preference,
        2 => MemoryKind::Event,
        3 => MemoryKind::Profile,
        4 => MemoryKind::Relationship,
        5 => MemoryKind::Goal,
        _ => MemoryKind::Other,
    }
}
fn rel_of(r: u8) -> VersionRelation {
    match r % 4 {
        0 => VersionRelation::Sets,
        1 => VersionRelation::Updates,
        2 => VersionRelation::Extends,
        _ => VersionRelation::Retracts,
    }
}
fn ekind(k: u8) -> EntityKind {
    match k % 4 {
        0 => EntityKind::Person,
        1 => EntityKind::Organization,
        2 => EntityKind::Location,
        _ => EntityKind::Project,
    }
}
fn link(k: u8) -> LinkType {
    match k % 4 {
        0 => LinkType::Employer,
        1 => LinkType::Manager,
        2 => LinkType::Location,
        _ => LinkType::Related,
    }
}

fn build(c: &CardSpec) -> Option<MemoryCard> {
    let mut b = MemoryCardBuilder::default().kind(kind_of(c.kind)).entity(c.entity.clone()).slot(c.slot.clone()).value(c.value.clone()).source(c.source, None).engine(SIM_ENGINE, "1");
    if let Some(e) = c.event_date {
        b = b.event_date(e);
    }
    if let Some(d) = c.document_date {
        b = b.document_date(d);
    }
    let mut card = b.build(0).ok()?;
    card.version_relation = rel_of(c.relation);
    card.created_at = c.created_at;
    Some(card)
}

fn eff(c: &CardSpec) -> i64 {
    c.event_date.or(c.document_date).unwrap_or(c.created_at)
}

/// What one stored card looks like, field by field (the fields a caller can set).
pub fn card_line(c: &MemoryCard) -> String {
    format!("{}|{}|{}|{}|{:?}|{:?}|{:?}|{:?}|{}|{}", c.id, c.entity, c.slot, c.value, c.kind, c.event_date, c.document_date, c.version_relation, c.source_frame_id, c.created_at)
}
pub fn spec_line(id: u64, c: &CardSpec) -> String {
    format!("{}|{}|{}|{}|{:?}|{:?}|{:?}|{:?}|{}|{}", id, c.entity, c.slot, c.value, kind_of(c.kind), c.event_date, c.document_date, rel_of(c.relation), c.source, c.created_at)
}

pub fn exec_cards(w: &mut World, i: usize, op: &Op) -> (bool, bool, Option<String>) {
    if w.mem.is_none() {
        return (false, true, None);
    }
    match op {
        Op::PutCards(specs) => {
            if w.ro {
                return (false, true, None);
            }
            let cards: Vec<MemoryCard> = specs.iter().filter_map(build).collect();
            if cards.len() != specs.len() {
                return (false, true, None);
            }
            let mem = w.mem.as_mut().unwrap();
            let r = if cards.len() == 1 { mem.put_memory_card(cards.into_iter().next().unwrap()).map(|id| vec![id]) } else { mem.put_memory_cards(cards) };
            match r {
                Ok(ids) => {
                    if ids.len() != specs.len() {
                        w.viol(&["C27"], "card-ids-returned", format!("{} cards given, {} ids returned", specs.len(), ids.len()), i);
                    }
                    for (id, s) in ids.iter().zip(specs.iter()) {
                        w.model.cards.push((*id, s.clone()));
                    }
                    w.probes_extra("cards_put", specs.len() as u64);
                    (true, false, None)
                }
                Err(e) => (false, false, Some(format!("{e}"))),
            }
        }
        Op::CardQuery { entity, slot, t } => {
            let model_cards: Vec<(u64, CardSpec)> = w.model.cards.clone();
            let mem = w.mem.as_ref().unwrap();
            let got: Option<MemoryCard> = match t {
                Some(t) => mem.get_memory_at_time(entity, slot, *t).cloned(),
                None => mem.get_current_memory(entity, slot).cloned(),
            };
            let cur: Option<MemoryCard> = mem.get_current_memory(entity, slot).cloned();
            // cards the library extracted itself share the (entity, slot) space: collect them too
            let all: Vec<MemoryCard> = mem.memories().cards().to_vec();
            let mut v: Vec<(&'static str, String)> = Vec::new();
            w.probes_extra("card_queries", 1);
            if let Some(c) = &got {
                w.probes_extra("card_queries_answered", 1);
                if !c.entity.eq_ignore_ascii_case(entity) || !c.slot.eq_ignore_ascii_case(slot) {
                    v.push(("card-matches-key", format!("query ({entity},{slot}) returned a card for ({},{})", c.entity, c.slot)));
                }
                if c.version_relation == VersionRelation::Retracts {
                    v.push(("never-a-retraction", format!("query ({entity},{slot},{t:?}) returned card {} which is a retraction", c.id)));
                }
                if let Some(t) = t {
                    let e = c.event_date.or(c.document_date).unwrap_or(c.created_at);
                    if e > *t {
                        v.push(("not-from-the-future", format!("get_memory_at_time(..,{t}) returned card {} effective at {e}", c.id)));
                    }
                }
                // the card returned is one that was stored, unchanged
                if c.engine == SIM_ENGINE && !w.model.unpredictable {
                    match model_cards.iter().find(|(id, _)| *id == c.id) {
                        Some((id, s)) if spec_line(*id, s) == card_line(c) => {}
                        Some((id, s)) => v.push(("card-as-stored", format!("returned card {} differs from what was put: {} vs {}", c.id, card_line(c), spec_line(*id, s)))),
                        None => v.push(("card-as-stored", format!("returned card {} was never put (or was lost with an un-committed session)", c.id))),
                    }
                }
            }
            // at or beyond the latest card the answer is the current one
            if let Some(t) = t {
                let latest = all.iter().filter(|c| c.entity.eq_ignore_ascii_case(entity) && c.slot.eq_ignore_ascii_case(slot)).map(|c| c.event_date.or(c.document_date).unwrap_or(c.created_at)).max();
                if let Some(l) = latest {
                    if *t >= l {
                        w.probes_extra("card_queries_beyond_latest", 1);
                        if got.as_ref().map(|c| c.id) != cur.as_ref().map(|c| c.id) {
                            v.push(("beyond-latest-equals-current", format!("get_memory_at_time({entity},{slot},{t}) = card {:?}, get_current_memory = card {:?} (latest effective time {l})", got.as_ref().map(|c| c.id), cur.as_ref().map(|c| c.id))));
                        }
                    }
                }
                // reference: the newest non-retracted effective time not after t (ties: any of them).
                // Only caller-made cards are predicted; skip when the library added cards to this key.
                let only_sim = all.iter().filter(|c| c.entity.eq_ignore_ascii_case(entity) && c.slot.eq_ignore_ascii_case(slot)).all(|c| c.engine == SIM_ENGINE);
                if only_sim && !w.model.unpredictable {
                    let mut cands: Vec<&(u64, CardSpec)> = model_cards.iter().filter(|(_, s)| s.entity == *entity && s.slot == *slot && eff(s) <= *t).collect();
                    cands.sort_by_key(|(_, s)| std::cmp::Reverse(eff(s)));
                    let best = cands.iter().find(|(_, s)| s.relation % 4 != 3);
                    match (best, &got) {
                        (None, None) => {}
                        (Some((_, s)), Some(c)) => {
                            let e = c.event_date.or(c.document_date).unwrap_or(c.created_at);
                            if e != eff(s) {
                                v.push(("newest-not-after-t", format!("get_memory_at_time({entity},{slot},{t}) returned card {} effective at {e}; the newest non-retracted card not after t is effective at {}", c.id, eff(s))));
                            }
                        }
                        (b, g) => v.push(("newest-not-after-t", format!("get_memory_at_time({entity},{slot},{t}) returned {:?}, reference {:?}", g.as_ref().map(|c| c.id), b.map(|(id, _)| *id)))),
                    }
                }
            }
            for (o, m) in v {
                w.viol(&["C27"], o, m, i);
            }
            (true, false, None)
        }
        Op::MeshAdd { nodes, edges, frame } => {
            if w.ro {
                return (false, true, None);
            }
            let mem = w.mem.as_mut().unwrap();
            let mut ids: Vec<u64> = Vec::new();
            for (name, k) in nodes {
                let n = MeshNode::new(name.to_lowercase(), name.clone(), ekind(*k), 0.9, *frame, 0, name.len().min(60000) as u16);
                ids.push(n.id);
                mem.add_mesh_node(n);
                if !w.model.mesh_nodes.contains(&(name.to_lowercase(), *k % 4)) {
                    w.model.mesh_nodes.push((name.to_lowercase(), *k % 4));
                }
            }
            for (a, b, l) in edges {
                if let (Some(x), Some(y)) = (ids.get(*a), ids.get(*b)) {
                    mem.add_mesh_edge(MeshEdge::new(*x, *y, link(*l), 0.8, *frame));
                    let e = (nodes[*a].0.to_lowercase(), nodes[*b].0.to_lowercase(), *l % 4);
                    if !w.model.mesh_edges.contains(&e) {
                        w.model.mesh_edges.push(e);
                    }
                }
            }
            w.probes_extra("mesh_adds", 1);
            (true, false, None)
        }
        _ => (false, true, None),
    }
}

/// Runs inside every full comparison: card set and mesh equal the model's (C27); cards the library
/// extracted and the enrichment queue name the right frames (C26).
pub fn check_tracks(w: &mut World, i: usize, at: &str) {
    if w.model.unpredictable || w.mem.is_none() {
        return;
    }
    let mem = w.mem.as_ref().unwrap();
    let mut v: Vec<(&'static str, &'static str, String)> = Vec::new();
    let cards: Vec<MemoryCard> = mem.memories().cards().to_vec();
    // ---- C27: the mesh
    if !w.model.mesh_nodes.is_empty() || mem.mesh_node_count() > 0 {
        let mesh = mem.logic_mesh();
        let got_n: BTreeSet<(String, String)> = mesh.nodes.iter().map(|n| (n.canonical_name.clone(), format!("{:?}", n.kind))).collect();
        let exp_n: BTreeSet<(String, String)> = w.model.mesh_nodes.iter().map(|(n, k)| (n.clone(), format!("{:?}", ekind(*k)))).collect();
        if got_n != exp_n {
            v.push(("C27", "mesh-unchanged", format!("[{at}] mesh nodes differ: file has {} {:?}…, model {} {:?}…", got_n.len(), got_n.iter().next(), exp_n.len(), exp_n.iter().next())));
        }
        let name_of = |id: u64| mesh.nodes.iter().find(|n| n.id == id).map(|n| n.canonical_name.clone()).unwrap_or_default();
        let got_e: BTreeSet<(String, String, String)> = mesh.edges.iter().map(|e| (name_of(e.from_node), name_of(e.to_node), e.link.as_str().to_string())).collect();
        let exp_e: BTreeSet<(String, String, String)> = w.model.mesh_edges.iter().map(|(a, b, l)| (a.clone(), b.clone(), link(*l).as_str().to_string())).collect();
        if got_e != exp_e {
            v.push(("C27", "mesh-unchanged", format!("[{at}] mesh edges differ: file has {}, model {}", got_e.len(), exp_e.len())));
        }
    }
    // ---- C26: cards the library extracted during a put name the frame they came from.
    // Judged on committed state only (the statement says "once committed").
    if w.model.pending.is_empty() {
        let extracted: Vec<&MemoryCard> = cards.iter().filter(|c| c.engine != SIM_ENGINE).collect();
        let mut texts: std::collections::BTreeMap<u64, Option<String>> = Default::default();
        let mut handle = w.mem.take().unwrap();
        for c in extracted.iter().take(60) {
            let t = texts.entry(c.source_frame_id).or_insert_with(|| handle.frame_text_by_id(c.source_frame_id).ok()).clone();
            *w.extra_probes.entry("extracted_cards_checked".into()).or_default() += 1;
            match t {
                None => v.push(("C26", "card-source-frame", format!("[{at}] extracted card {} ({}/{}={:?}) names source frame {} which does not exist", c.id, c.entity, c.slot, c.value, c.source_frame_id))),
                Some(text) => {
                    if !text.to_lowercase().contains(&c.value.to_lowercase()) {
                        v.push(("C26", "card-source-frame", format!("[{at}] extracted card {} ({}/{}={:?}) names source frame {} whose text does not contain the value", c.id, c.entity, c.slot, c.value, c.source_frame_id)));
                    }
                }
            }
        }
        // enrichment records point at frames too
        // ---- C26: the enrichment queue names documents that asked for enrichment
        let qlen = handle.enrichment_queue_len();
        if qlen > 0 && w.ro {
            // drained on a read-only handle only: nothing of this reaches the file
            let mut seen = 0;
            while let Some(task) = handle.next_enrichment_task() {
                seen += 1;
                *w.extra_probes.entry("queue_entries_checked".into()).or_default() += 1;
                match w.model.frames.get(task.frame_id as usize) {
                    Some(f) if f.queued => {}
                    Some(f) => v.push(("C26", "queue-entry-frame", format!("[{at}] enrichment queue names frame {} ({:?}, role {}), which was not put with background enrichment", task.frame_id, f.uri, f.role))),
                    None => v.push(("C26", "queue-entry-frame", format!("[{at}] enrichment queue names frame {} which does not exist ({} frames)", task.frame_id, w.model.frames.len()))),
                }
                handle.complete_enrichment_task(task.frame_id);
                if seen > 500 {
                    break;
                }
            }
            // (completeness of the queue is not part of the statement: entries are kept in the table
            // of contents, not in the log, and a process death may drop them)
            let _ = seen;
        }
        w.mem = Some(handle);
    }
    for (p, o, m) in v {
        let sig = if o == "card-source-frame" || o == "queue-entry-frame" { "" } else { "" };
        w.viol_sig(&[p], o, sig, m, i);
    }
}

// ---------------------------------------------------------------------------------------------
// generator: card / mesh / triplet histories

const ENT: &[&str] = &["user", "alice", "project.memvid"];
const SLOT: &[&str] = &["employer", "location", "food"];
// "age" is a built-in slot whose schema wants a number: the values generated here never are, so
// those cards take the accepted-with-a-warning branch of put_memory_card (C26 / C27 generator only)
const SLOT_EXT: &[&str] = &["employer", "location", "food", "age"];

pub fn gen_card(r: &mut Rng, times: &[i64], n: u64) -> CardSpec {
    gen_card_from(r, times, n, SLOT)
}

fn gen_card_from(r: &mut Rng, times: &[i64], n: u64, slots: &[&str]) -> CardSpec {
    let t = *r.pickv(times);
    CardSpec {
        entity: r.pick(ENT).to_string(),
        slot: r.pick(slots).to_string(),
        value: format!("value-{n}"),
        kind: r.below(7) as u8,
        event_date: if r.chance(1, 2) { Some(t) } else { None },
        document_date: if r.chance(1, 2) { Some(*r.pickv(times)) } else { None },
        relation: *r.pickv(&[0u8, 0, 1, 1, 2, 3]),
        source: r.below(4),
        created_at: *r.pickv(times),
    }
}

const FIRST: &[&str] = &["Alice", "Bruno", "Carla", "Dmitri", "Elena", "Farid", "Greta", "Hugo"];
const PLACE: &[&str] = &["Lisbon", "Oslo", "Nairobi", "Quito", "Hanoi", "Tallinn"];

/// A short first-/third-person text that the rules engine turns into cards, with values that are
/// unique to the document.
pub fn triplet_text(r: &mut Rng, n: u64) -> String {
    let who = r.pick(FIRST);
    let mut s = String::new();
    s.push_str(&format!("Meeting notes number {n}. "));
    match r.below(3) {
        0 => s.push_str(&format!("{who} works at Zorvak{n}corp. ")),
        1 => s.push_str(&format!("{who} lives in {}. ", r.pick(PLACE))),
        _ => s.push_str(&format!("{who} loves blimtop{n}x. ")),
    }
    if r.chance(1, 2) {
        s.push_str(&format!("I work at Quandox{n}labs. "));
    }
    s.push_str("Nothing else was decided.");
    s
}

pub fn gen_cards(seed: u64, tier: crate::checks::Tier, derived: bool) -> Scenario {
    let mut r = Rng::new(seed, "cards");
    let env = crate::gen::env_for(seed, &mut r);
    let mut ops = vec![Op::Create];
    let n_ops = 4 + r.below(if tier == crate::checks::Tier::Quick { 26 } else { 60 }) as usize;
    let times: Vec<i64> = (0..(3 + r.below(5))).map(|_| r.range(0, 2_000_000) as i64 - 1_000_000).chain([0i64, 1_700_000_000]).collect();
    let mut n = 0u64;
    let mut open = true;
    let mut rb = Rng::new(seed, "cards-bulk");
    let bulk = rb.chance(1, 3);
    let w_card = if derived { 2 } else { 10 };
    let w_trip = if derived { 10 } else { 3 };
    for _ in 0..n_ops {
        if !open {
            ops.push(Op::Open);
            ops.push(Op::Check);
            open = true;
            continue;
        }
        n += 1;
        match r.weighted(&[w_card, 8, 4, 4, 2, 2, w_trip, 2, 2]) {
            0 => {
                let k = if r.chance(1, 3) { r.range(2, 5) } else { 1 };
                ops.push(Op::PutCards((0..k).map(|j| gen_card_from(&mut r, &times, n * 10 + j, SLOT_EXT)).collect()));
            }
            1 => {
                let t = match r.below(5) {
                    0 => None,
                    1 => Some(i64::MAX),
                    2 => Some(*r.pickv(&times) - 1),
                    _ => Some(*r.pickv(&times) + r.range(0, 2) as i64),
                };
                ops.push(Op::CardQuery { entity: r.pick(ENT).to_string(), slot: r.pick(SLOT_EXT).to_string(), t });
            }
            // derived mode, one run in three: commits go through the bulk path (records applied,
            // no index rebuild), which keeps its own bookkeeping of pending inserts
            2 => ops.push(if derived && bulk && rb.chance(2, 3) { Op::CommitSkipIndexes } else { Op::Commit }),
            3 => {
                // an ordinary document between the card operations (so log sequence numbers and
                // frame ids diverge): whole or chunked
                let long = r.chance(1, 4);
                let mut p = PutSpec { pay: Some(Pay::new(if long { PK::LongText } else { PK::Text }, if long { r.range(2400, 5000) } else { r.range(20, 800) } as usize, r.next())), ts: Some(n as i64), ..Default::default() };
                p.uri = Some(format!("mv2://doc/{n}"));
                ops.push(Op::Put(p));
            }
            4 => {
                ops.push(Op::Close);
                open = false;
            }
            5 => {
                ops.push(Op::Abandon);
                open = false;
            }
            6 => {
                // a document the rules engine extracts cards from, sometimes indexed instantly and
                // queued for background enrichment
                let text = triplet_text(&mut r, n);
                let mut p = PutSpec { pay: None, ts: Some(n as i64), triplets: true, ..Default::default() };
                p.uri = Some(format!("mv2://notes/{n}"));
                p.search_text = None;
                p.instant_index = r.chance(1, 2);
                p.enable_embedding = p.instant_index && r.chance(1, 2);
                p.pay = Some(Pay { kind: PK::Literal, len: text.len(), seed: r.next(), plant: vec![text] });
                ops.push(Op::Put(p));
            }
            7 => {
                let names: Vec<(String, u8)> = (0..r.range(1, 4)).map(|_| (format!("{} {}", r.pick(FIRST), r.pick(PLACE)), r.below(4) as u8)).collect();
                let edges: Vec<(usize, usize, u8)> = if names.len() >= 2 { vec![(0, 1, r.below(4) as u8)] } else { vec![] };
                ops.push(Op::MeshAdd { nodes: names, edges, frame: r.below(4) });
            }
            _ => ops.push(Op::Check),
        }
    }
    if open {
        if r.chance(1, 2) {
            ops.push(Op::Commit);
        }
        ops.push(if r.chance(1, 3) { Op::Abandon } else { Op::Close });
    }
    ops.push(Op::Open);
    ops.push(Op::Check);
    for _ in 0..3 {
        ops.push(Op::CardQuery { entity: r.pick(ENT).to_string(), slot: r.pick(SLOT_EXT).to_string(), t: Some(*r.pickv(&times)) });
    }
    ops.push(Op::Close);
    ops.push(Op::OpenRo);
    ops.push(Op::Check);
    ops.push(Op::Close);
    Scenario { seed, env, ops, fault: Default::default(), fault_ops: vec![], post: None, medium: None, knobs: Default::default() }
}
