//! Engine 2: drives the public `EmbeddedWal` API directly on a file inside the simulated
//! directory, next to a vector-of-records model (C05).
use crate::disk::{self, CrashSpec, FsImage};
use crate::ops::*;
use crate::rng::Rng;
use crate::runner::{RunResult, ViolationRec};
use crate::shim::{self, Kind};
use memvid_core::{EmbeddedWal, Header, MemvidError};
use serde::{Deserialize, Serialize};
use std::collections::BTreeMap;
use std::fs::OpenOptions;

#[derive(Serialize, Deserialize, Clone, Debug, PartialEq)]
pub enum WalOp {
    Append { len: usize, seed: u64 },
    Checkpoint,
    Stats,
    Pending,
    RecordsAfter { back: u64 },
    ShouldCheckpoint,
    /// drop the handle, open again from the current header
    Reopen,
    /// read-only view from the current header
    ReadOnlyView,
    /// power loss: everything not yet fsynced is gone; open again from the header
    DirtyReopen,
    SkipSync(bool),
    Flush,
}

const WAL_OFF: u64 = 4096;

fn payload(len: usize, seed: u64) -> Vec<u8> {
    let mut r = Rng::new(seed, "walpay");
    let mut v = Vec::with_capacity(len);
    while v.len() < len {
        v.extend_from_slice(&r.next().to_le_bytes());
    }
    v.truncate(len);
    if let Some(b) = v.first_mut() {
        *b |= 1; // never an all-zero payload prefix
    }
    v
}

struct M {
    /// records appended since the last checkpoint: (seq, bytes)
    pending: Vec<(u64, Vec<u8>)>,
    seq: u64,
    ckpt_seq: u64,
    /// how many of `pending` are durable (for skip_sync mode)
    durable: usize,
    skip_sync: bool,
    appends_since_ckpt: u64,
}

pub struct WalOutcome {
    pub violation: Option<(String, String)>,
    pub steps: usize,
    pub appends_ok: u64,
    pub appends_full: u64,
    pub checkpoints: u64,
    pub reopens: u64,
    pub dirty_reopens: u64,
    pub head_near_end: u64,
    pub head_at_end: u64,
    pub wraps: u64,
    pub states: Vec<(u64, u64, u64)>,
}

fn header(region: u64) -> Header {
    Header { magic: *b"MV2\0", version: 0x0201, footer_offset: WAL_OFF + region, wal_offset: WAL_OFF, wal_size: region, wal_checkpoint_pos: 0, wal_sequence: 0, toc_checksum: [0u8; 32] }
}

/// Run one explicit WAL scenario in `dir` (must be the tracked directory when dirty reopens are used).
pub fn run_wal(dir: &str, region: u64, ops: &[WalOp]) -> WalOutcome {
    let path = format!("{dir}/wal.bin");
    let mut out = WalOutcome { violation: None, steps: 0, appends_ok: 0, appends_full: 0, checkpoints: 0, reopens: 0, dirty_reopens: 0, head_near_end: 0, head_at_end: 0, wraps: 0, states: Vec::new() };
    let mut file = OpenOptions::new().read(true).write(true).create(true).truncate(true).open(&path).unwrap();
    file.set_len(WAL_OFF + region).unwrap();
    file.sync_all().unwrap();
    let mut hdr = header(region);
    let mut wal = match EmbeddedWal::open(&file, &hdr) {
        Ok(w) => w,
        Err(e) => {
            out.violation = Some(("open".into(), format!("initial open failed: {e}")));
            return out;
        }
    };
    let mut m = M { pending: Vec::new(), seq: 0, ckpt_seq: 0, durable: 0, skip_sync: false, appends_since_ckpt: 0 };
    let mut head: u64 = 0; // model of the write head (only for probes)
    macro_rules! fail {
        ($o:expr, $($a:tt)*) => {{
            out.violation = Some(($o.to_string(), format!($($a)*)));
            return out;
        }};
    }
    let check_scan = |wal: &mut EmbeddedWal, m: &M, what: &str| -> Option<(String, String)> {
        match wal.pending_records() {
            Ok(recs) => {
                if recs.len() != m.pending.len() {
                    let oracle = if recs.len() < m.pending.len() { "pending-lost" } else { "pending-resurrected" };
                    return Some((oracle.into(), format!("[{what}] scan returned {} pending records, model has {} (seqs {:?} vs {:?})", recs.len(), m.pending.len(), recs.iter().map(|r| r.sequence).collect::<Vec<_>>(), m.pending.iter().map(|p| p.0).collect::<Vec<_>>())));
                }
                for (r, p) in recs.iter().zip(m.pending.iter()) {
                    if r.sequence != p.0 {
                        return Some(("pending-order".into(), format!("[{what}] record sequence {} where model has {}", r.sequence, p.0)));
                    }
                    if r.payload != p.1 {
                        return Some(("pending-bytes".into(), format!("[{what}] record {} payload differs ({} vs {} bytes)", r.sequence, r.payload.len(), p.1.len())));
                    }
                }
                None
            }
            Err(e) => Some(("scan-fails".into(), format!("[{what}] pending_records failed: {e}"))),
        }
    };
    for (i, op) in ops.iter().enumerate() {
        out.steps = i + 1;
        match op {
            WalOp::Append { len, seed } => {
                let p = payload(*len, *seed);
                let entry = 48 + p.len() as u64;
                let pend_bytes: u64 = m.pending.iter().map(|x| 48 + x.1.len() as u64).sum();
                match wal.append_entry(&p) {
                    Ok(seq) => {
                        if p.is_empty() {
                            // a zero-length record cannot be told from the sentinel; the library accepts it,
                            // which is outside what the model describes
                            fail!("append-empty", "append of an empty payload was accepted (seq {seq})");
                        }
                        if entry > region || pend_bytes + entry > region {
                            fail!("append-overwrites", "append of {} bytes accepted although pending {} + entry {} exceeds region {}", p.len(), pend_bytes, entry, region);
                        }
                        if seq != m.seq + 1 {
                            fail!("sequence", "append returned sequence {seq}, expected {}", m.seq + 1);
                        }
                        m.seq = seq;
                        m.pending.push((seq, p));
                        m.appends_since_ckpt += 1;
                        if !m.skip_sync {
                            m.durable = m.pending.len();
                        }
                        out.appends_ok += 1;
                        if head + entry > region {
                            head = 0;
                            out.wraps += 1;
                        }
                        head += entry;
                        if region - head < 48 && region != head {
                            out.head_near_end += 1;
                        }
                        if head == region {
                            out.head_at_end += 1;
                        }
                    }
                    Err(MemvidError::CheckpointFailed { reason }) if reason.contains("full") || reason.contains("too small") || reason.contains("too large") => {
                        out.appends_full += 1;
                        // must have changed nothing
                    }
                    Err(e) => fail!("append-error", "append of {} bytes failed unexpectedly: {e}", p.len()),
                }
                if let Some(v) = check_scan(&mut wal, &m, "after append") {
                    out.violation = Some(v);
                    return out;
                }
            }
            WalOp::Checkpoint => {
                if let Err(e) = wal.record_checkpoint(&mut hdr) {
                    fail!("checkpoint-error", "record_checkpoint failed: {e}");
                }
                // the caller persists the header and syncs, as Memvid does
                if let Err(e) = wal.flush() {
                    fail!("checkpoint-error", "flush failed: {e}");
                }
                if hdr.wal_sequence != m.seq {
                    fail!("checkpoint-seq", "header.wal_sequence={} after checkpoint, expected {}", hdr.wal_sequence, m.seq);
                }
                m.ckpt_seq = m.seq;
                m.pending.clear();
                m.durable = 0;
                m.appends_since_ckpt = 0;
                out.checkpoints += 1;
                if let Some(v) = check_scan(&mut wal, &m, "after checkpoint") {
                    out.violation = Some(v);
                    return out;
                }
            }
            WalOp::Stats => {
                let s = wal.stats();
                let pb: u64 = m.pending.iter().map(|x| 48 + x.1.len() as u64).sum();
                if s.pending_bytes != pb {
                    fail!("stats-pending-bytes", "stats.pending_bytes={}, model {}", s.pending_bytes, pb);
                }
                if s.region_size != region {
                    fail!("stats-region", "stats.region_size={}, expected {region}", s.region_size);
                }
                if s.sequence != m.seq {
                    fail!("stats-sequence", "stats.sequence={}, model {}", s.sequence, m.seq);
                }
            }
            WalOp::Pending => {
                if let Some(v) = check_scan(&mut wal, &m, "pending") {
                    out.violation = Some(v);
                    return out;
                }
            }
            WalOp::RecordsAfter { back } => {
                let from = m.seq.saturating_sub(*back).max(m.ckpt_seq);
                match wal.records_after(from) {
                    Ok(recs) => {
                        let exp: Vec<u64> = m.pending.iter().map(|p| p.0).filter(|s| *s > from).collect();
                        let got: Vec<u64> = recs.iter().map(|r| r.sequence).collect();
                        if got != exp {
                            fail!("records-after", "records_after({from}) = {:?}, model {:?}", got, exp);
                        }
                    }
                    Err(e) => fail!("scan-fails", "records_after failed: {e}"),
                }
            }
            WalOp::ShouldCheckpoint => {
                let pb: u64 = m.pending.iter().map(|x| 48 + x.1.len() as u64).sum();
                let exp = (pb as f64 / region as f64) >= 0.75 || m.appends_since_ckpt >= 1000;
                let got = wal.should_checkpoint();
                if got != exp && m.appends_since_ckpt < 1000 {
                    fail!("should-checkpoint", "should_checkpoint()={got} with {pb} pending bytes of {region}");
                }
            }
            WalOp::Reopen | WalOp::ReadOnlyView => {
                let ro = matches!(op, WalOp::ReadOnlyView);
                let r = if ro { EmbeddedWal::open_read_only(&file, &hdr) } else { EmbeddedWal::open(&file, &hdr) };
                match r {
                    Ok(mut w2) => {
                        out.reopens += 1;
                        if let Some(v) = check_scan(&mut w2, &m, if ro { "read-only view" } else { "reopen" }) {
                            out.violation = Some(v);
                            return out;
                        }
                        if !ro {
                            wal = w2;
                            // a fresh handle does not remember skip_sync or the append counter
                            m.skip_sync = false;
                            m.appends_since_ckpt = 0;
                        }
                    }
                    Err(e) => fail!("reopen-fails", "open from the current header failed: {e}"),
                }
            }
            WalOp::DirtyReopen => {
                // power loss: un-synced writes are gone
                let Some(log) = shim::with_rec(|r| r.log.clone()) else { continue };
                let (data, _d) = disk::unsynced(&log, log.len());
                let img = disk::build(&log, &FsImage::default(), &CrashSpec::Power { cut: log.len(), drop: data, tear: None, dir_keep: 0 });
                let Some(bytes) = img.files.get("wal.bin") else { fail!("dirty-reopen", "file missing from the durable image") };
                drop(wal);
                // rewrite the file in place with the durable content (same path, tracked)
                use std::io::{Seek, SeekFrom, Write};
                file.seek(SeekFrom::Start(0)).unwrap();
                file.write_all(bytes).unwrap();
                file.set_len(bytes.len() as u64).unwrap();
                file.sync_all().unwrap();
                m.pending.truncate(m.durable);
                m.seq = m.pending.last().map(|p| p.0).unwrap_or(m.ckpt_seq);
                m.skip_sync = false;
                m.appends_since_ckpt = 0;
                out.dirty_reopens += 1;
                match EmbeddedWal::open(&file, &hdr) {
                    Ok(mut w2) => {
                        if let Some(v) = check_scan(&mut w2, &m, "dirty reopen") {
                            out.violation = Some(v);
                            return out;
                        }
                        wal = w2;
                    }
                    Err(e) => fail!("reopen-fails", "open after power loss failed: {e}"),
                }
                // head model: recompute from durable pending (approximation used only for probes)
            }
            WalOp::SkipSync(b) => {
                wal.set_skip_sync(*b);
                m.skip_sync = *b;
            }
            WalOp::Flush => {
                if let Err(e) = wal.flush() {
                    fail!("flush-error", "flush failed: {e}");
                }
                m.durable = m.pending.len();
            }
        }
        let s = wal.stats();
        if out.states.len() < 64 {
            out.states.push((head, s.pending_bytes, m.pending.len() as u64));
        }
    }
    out
}

pub fn gen_wal(seed: u64) -> (u64, Vec<WalOp>) {
    let mut r = Rng::new(seed, "walgen");
    let region: u64 = match r.below(10) {
        0..=5 => r.range(96, 512),
        6..=7 => r.range(512, 4096),
        _ => 65536,
    };
    let n = 1 + r.below(if region > 5000 { 40 } else { 24 }) as usize;
    let mut ops = Vec::new();
    let mut head = 0u64;
    let mut pend = 0u64;
    let use_skip = r.chance(1, 4);
    let w_ck = 1 + r.below(5) as u32;
    for _ in 0..n {
        match r.weighted(&[10, w_ck, 1, 2, 1, 1, 2, 1, if use_skip { 2 } else { 0 }, if use_skip { 2 } else { 0 }, if use_skip { 1 } else { 0 }]) {
            0 => {
                let max = region.saturating_sub(48).max(1);
                let room_to_end = region.saturating_sub(head);
                let len = match r.below(9) {
                    // steer: stop 1..47 bytes short of the region end
                    0 if room_to_end > 96 => room_to_end - 48 - r.range(1, 47),
                    // steer: land exactly on the region end
                    1 if room_to_end > 49 => room_to_end - 48,
                    // steer: exactly fill what is left of the capacity
                    2 if region > pend + 49 => region - pend - 48,
                    // one byte too many
                    3 if region > pend + 48 => region - pend - 47,
                    4 => r.range(1, 8),
                    5 => max + r.range(0, 3),
                    _ => r.range(1, (max / 2).max(1)),
                } as usize;
                let entry = 48 + len as u64;
                if entry <= region && pend + entry <= region && !(head + entry > region && pend > 0) {
                    if head + entry > region {
                        head = 0;
                    }
                    head += entry;
                    pend += entry;
                }
                ops.push(WalOp::Append { len, seed: r.next() });
            }
            1 => {
                ops.push(WalOp::Checkpoint);
                pend = 0;
            }
            2 => ops.push(WalOp::Stats),
            3 => ops.push(WalOp::Pending),
            4 => ops.push(WalOp::RecordsAfter { back: r.below(4) }),
            5 => ops.push(WalOp::ShouldCheckpoint),
            6 => ops.push(WalOp::Reopen),
            7 => ops.push(WalOp::ReadOnlyView),
            8 => ops.push(WalOp::SkipSync(r.chance(2, 3))),
            9 => ops.push(WalOp::Flush),
            _ => ops.push(WalOp::DirtyReopen),
        }
    }
    ops.push(WalOp::Pending);
    ops.push(WalOp::Reopen);
    (region, ops)
}

/// CheckDef.run for C05. Explore mode: many generated sub-runs per process (each ~tens of µs);
/// replay mode: the explicit ops in scn.ops.
pub fn run_c05(scn: &Scenario, prop: &str, explore: bool) -> RunResult {
    let t0 = shim::real_ms();
    let root = crate::runner::scratch_root();
    let dir = format!("{root}/wal");
    std::fs::create_dir_all(&dir).unwrap();
    let mut res = RunResult { seed: scn.seed, prop: prop.to_string(), ..Default::default() };
    let explicit: Vec<WalOp> = scn.ops.iter().filter_map(|o| if let Op::Wal(w) = o { Some(w.clone()) } else { None }).collect();
    let mut classes: BTreeMap<String, u64> = BTreeMap::new();
    let mut probes: BTreeMap<String, u64> = BTreeMap::new();
    let mut add = |k: &str, v: u64, probes: &mut BTreeMap<String, u64>| *probes.entry(k.to_string()).or_default() += v;
    let mut states: std::collections::BTreeSet<String> = Default::default();
    let runs: Vec<(u64, u64, Vec<WalOp>)> = if !explicit.is_empty() {
        vec![(scn.seed, scn.knobs.get("region").copied().unwrap_or(256) as u64, explicit)]
    } else if explore {
        let n = scn.knobs.get("subruns").copied().unwrap_or(500) as u64;
        (0..n).map(|k| {
            let s = scn.seed.wrapping_mul(1_000_003).wrapping_add(k);
            let (region, ops) = gen_wal(s);
            (s, region, ops)
        }).collect()
    } else {
        Vec::new()
    };
    let mut evals = 0u64;
    for (s, region, ops) in runs {
        shim::start(&dir, Default::default(), 0);
        let o = run_wal(&dir, region, &ops);
        shim::stop();
        let _ = std::fs::remove_file(format!("{dir}/wal.bin"));
        evals += 1;
        add("wal_appends_ok", o.appends_ok, &mut probes);
        add("wal_appends_rejected_full", o.appends_full, &mut probes);
        add("wal_checkpoints", o.checkpoints, &mut probes);
        add("wal_reopens", o.reopens, &mut probes);
        add("wal_dirty_reopens", o.dirty_reopens, &mut probes);
        add("wal_head_within_48_of_end", o.head_near_end, &mut probes);
        add("wal_head_exactly_at_end", o.head_at_end, &mut probes);
        add("wal_wraps", o.wraps, &mut probes);
        for st in &o.states {
            if states.len() < 50_000 {
                states.insert(format!("{region}:{}:{}:{}", st.0, st.1, st.2));
            }
        }
        let bucket = if region <= 512 { "tiny" } else if region <= 4096 { "small" } else { "64k" };
        let cls = format!("{bucket}|app{}|full{}|ck{}|re{}|dirty{}|near{}|end{}|wrap{}", o.appends_ok.min(4), o.appends_full.min(2), o.checkpoints.min(3), o.reopens.min(2), o.dirty_reopens.min(1), o.head_near_end.min(1), o.head_at_end.min(1), o.wraps.min(2));
        if o.appends_ok > 0 && (o.reopens > 0 || o.checkpoints > 0) {
            *classes.entry(cls).or_default() += 1;
        }
        if res.sample.is_none() {
            res.sample = Some(serde_json::json!({"region": region, "ops": ops.iter().take(30).map(|o| format!("{o:?}")).collect::<Vec<_>>() }));
        }
        if let Some((oracle, msg)) = o.violation {
            res.violations.push(ViolationRec { props: vec![prop.to_string()], oracle, sig: String::new(), msg: format!("region {region}, step {}: {msg}", o.steps), op: o.steps });
            let mut rs = scn.clone();
            rs.seed = s;
            rs.ops = ops.iter().take(o.steps).map(|w| Op::Wal(w.clone())).collect();
            rs.knobs.insert("region".into(), region as i64);
            res.repro = Some(rs);
            break;
        }
    }
    res.nontrivial = !classes.is_empty();
    // the coordinator counts distinct classes across runs: report each class of this batch
    res.classes = classes.keys().cloned().collect();
    res.evals = evals;
    res.probes = probes;
    res.probes.insert("wal_subruns".into(), evals);
    res.states = states.into_iter().collect();
    res.n_ops = evals as usize;
    res.wall_ms = shim::real_ms() - t0;
    res
}

pub fn gen_c05(seed: u64, tier: crate::checks::Tier) -> Scenario {
    let mut knobs = BTreeMap::new();
    knobs.insert("subruns".to_string(), if tier == crate::checks::Tier::Quick { 400 } else { 2000 });
    Scenario { seed, env: EnvCfg { env_seed: seed, real_base_s: 1_700_000_000, jumpy_pm: 0 }, ops: vec![], fault: Default::default(), fault_ops: vec![], post: None, medium: None, knobs }
}
