//! C29: encrypted capsules. A simulator-produced .mv2 file is locked and unlocked under the
//! recorder; the capsule is then damaged at rest (addressed by its structure), unlock is run with
//! injected I/O errors, and the unlock's own syscall log is cut at every point (process crash).
use crate::corrupt::Medium;
use crate::disk::{self, CrashSpec};
use crate::ops::*;
use crate::rng::Rng;
use crate::runner::{self, RunResult, ViolationRec};
use crate::shim::{self, Kind};
use crate::world::{World, FILE};
use memvid_core::encryption::{lock_file, unlock_file};
use std::collections::BTreeMap;
use std::panic::{catch_unwind, AssertUnwindSafe};
use std::path::Path;

const PW: &[u8] = b"correct horse battery staple";
const CAPSULE: &str = "m.mv2e";
const OUT: &str = "out.mv2";

#[derive(Clone, Debug)]
struct Region {
    name: &'static str,
    off: u64,
    len: u64,
}

/// Structure of a streaming capsule: 64-byte header, then [u32 len][ciphertext+tag] per chunk.
fn regions(c: &[u8]) -> (Vec<Region>, Vec<u64>) {
    let mut v = vec![
        Region { name: "header.magic", off: 0, len: 4 },
        Region { name: "header.version", off: 4, len: 2 },
        Region { name: "header.algorithms", off: 6, len: 2 },
        Region { name: "header.salt", off: 8, len: 32 },
        Region { name: "header.nonce-prefix", off: 40, len: 4 },
        Region { name: "header.nonce-counter-bytes", off: 44, len: 8 },
        Region { name: "header.original_size", off: 52, len: 8 },
        Region { name: "header.format-flag", off: 60, len: 1 },
        Region { name: "header.reserved", off: 61, len: 3 },
    ];
    let mut bounds = vec![64u64];
    let mut cur = 64usize;
    while cur + 4 <= c.len() {
        let l = u32::from_le_bytes(c[cur..cur + 4].try_into().unwrap()) as usize;
        if l < 16 || cur + 4 + l > c.len() {
            break;
        }
        v.push(Region { name: "chunk.length-prefix", off: cur as u64, len: 4 });
        v.push(Region { name: "chunk.ciphertext", off: cur as u64 + 4, len: (l - 16) as u64 });
        v.push(Region { name: "chunk.tag", off: (cur + 4 + l - 16) as u64, len: 16 });
        cur += 4 + l;
        bounds.push(cur as u64);
    }
    v.retain(|r| r.len > 0);
    (v, bounds)
}

fn apply(c: &[u8], m: &Medium) -> Vec<u8> {
    let mut b = c.to_vec();
    let n = b.len() as u64;
    match m {
        Medium::Flip { off, mask } => {
            if *off < n {
                b[*off as usize] ^= *mask;
            }
        }
        Medium::Zero { off, len } => {
            for x in &mut b[(*off).min(n) as usize..(*off + *len).min(n) as usize] {
                *x = 0;
            }
        }
        Medium::Garbage { off, len, seed } => {
            let mut r = Rng::new(*seed, "garbage");
            for x in &mut b[(*off).min(n) as usize..(*off + *len).min(n) as usize] {
                *x = r.below(256) as u8;
            }
        }
        Medium::Truncate { len } => b.truncate((*len).min(n) as usize),
        // chunk-level edits are expressed as splices / misdirected copies of whole chunks
        Medium::Splice { head, tail_from } => {
            let h = (*head).min(n) as usize;
            let t = (*tail_from).min(n) as usize;
            let mut v = b[..h].to_vec();
            v.extend_from_slice(&b[t..]);
            b = v;
        }
        Medium::Misdirect { src, dst, len } => {
            // insert a copy of [src, src+len) at dst (duplicates / reorders chunks)
            let s = (*src).min(n) as usize;
            let l = (*len).min(n - (*src).min(n)) as usize;
            let d = (*dst).min(n) as usize;
            let chunk = b[s..s + l].to_vec();
            let mut v = b[..d].to_vec();
            v.extend_from_slice(&chunk);
            v.extend_from_slice(&b[d..]);
            b = v;
        }
        Medium::LostWrite { .. } => {}
        Medium::TornTrailer { .. } => {}
        Medium::SetU64 { off, val } => {
            if *off + 8 <= n {
                b[*off as usize..*off as usize + 8].copy_from_slice(&val.to_le_bytes());
            }
        }
    }
    b
}

fn gen_faults(r: &mut Rng, c: &[u8], count: usize) -> Vec<(Medium, String)> {
    let (regs, bounds) = regions(c);
    let n = c.len() as u64;
    let mut out: Vec<(Medium, String)> = Vec::new();
    // always: truncation exactly at a chunk boundary (the end of some chunk), when there is one
    if bounds.len() >= 2 {
        let k = 1 + r.below(bounds.len() as u64 - 1) as usize;
        if bounds[k] < n || k < bounds.len() - 1 {
            let at = bounds[k.min(bounds.len() - 2).max(0)];
            if at < n {
                out.push((Medium::Truncate { len: at }, "truncate@chunk-boundary".into()));
            }
        }
    }
    while out.len() < count {
        let reg = r.pickv(&regs).clone();
        let off = reg.off + r.below(reg.len);
        let (m, what): (Medium, String) = match r.below(12) {
            0..=4 => (Medium::Flip { off, mask: 1 << r.below(8) }, format!("flip@{}", reg.name)),
            5 => (Medium::Garbage { off, len: r.range(1, 32).min(reg.off + reg.len - off), seed: r.next() }, format!("garbage@{}", reg.name)),
            6 => (Medium::Truncate { len: off }, format!("truncate@{}", reg.name)),
            7 => (Medium::Truncate { len: n - r.range(1, 20.min(n)) }, "truncate@tail".into()),
            8 if bounds.len() >= 2 => {
                // truncate in the middle of a length prefix or exactly at a boundary
                let b = bounds[r.below(bounds.len() as u64) as usize];
                let at = (b + r.below(4)).min(n.saturating_sub(1));
                (Medium::Truncate { len: at }, if at == b { "truncate@chunk-boundary".into() } else { "truncate@inside-length-prefix".into() })
            }
            9 if bounds.len() >= 3 => {
                // drop a whole chunk
                let k = r.below(bounds.len() as u64 - 1) as usize;
                (Medium::Splice { head: bounds[k], tail_from: bounds[k + 1] }, "drop-chunk".into())
            }
            10 if bounds.len() >= 2 => {
                // duplicate a chunk (insert a copy somewhere at a boundary): also reorders
                let k = r.below(bounds.len() as u64 - 1) as usize;
                let d = bounds[r.below(bounds.len() as u64) as usize];
                (Medium::Misdirect { src: bounds[k], dst: d, len: bounds[k + 1] - bounds[k] }, "duplicate-or-move-chunk".into())
            }
            _ => (Medium::Zero { off: reg.off, len: reg.len.min(r.range(1, 64)) }, format!("zero@{}", reg.name)),
        };
        out.push((m, what));
    }
    out
}

fn guarded<T>(f: impl FnOnce() -> T) -> Result<T, String> {
    catch_unwind(AssertUnwindSafe(f)).map_err(|p| p.downcast_ref::<String>().cloned().or_else(|| p.downcast_ref::<&str>().map(|s| s.to_string())).unwrap_or_else(|| "panic".into()))
}

pub fn run_capsule(scn: &Scenario, prop: &str, explore: bool) -> RunResult {
    let t0 = shim::real_ms();
    runner::setup_env(scn);
    let root = runner::scratch_root();
    let mut w = World::new(&root, scn);
    w.run(&scn.ops);
    if w.mem.is_some() {
        w.run_op(scn.ops.len(), &Op::Close);
    }
    w.finish_segment();
    let mut res = runner::collect(&mut w, scn, prop, t0);
    res.violations.clear();
    res.repro = None;
    let dir = w.dir.clone();
    let src = format!("{dir}/{FILE}");
    let Ok(plain) = std::fs::read(&src) else {
        res.inconclusive = true;
        return res;
    };
    if w.violations.iter().any(|v| v.props.iter().any(|p| p == "C01" || p == "PANIC")) || !w.model.exists {
        res.inconclusive = true;
        return res;
    }
    let mut vs: Vec<(ViolationRec, Option<Medium>)> = Vec::new();
    let mk = |oracle: &str, sig: &str, msg: String| ViolationRec { props: vec!["C29".into()], oracle: oracle.into(), sig: sig.into(), msg, op: 0 };
    let mut stats: BTreeMap<String, u64> = BTreeMap::new();
    let cap = format!("{dir}/{CAPSULE}");
    let out = format!("{dir}/{OUT}");
    *stats.entry(format!("plain_{}", if plain.len() > 2 * 1024 * 1024 { "over_2MiB" } else if plain.len() > 1024 * 1024 { "over_1MiB" } else { "under_1MiB" })).or_default() += 1;

    // ---- 1. clean round trip, under the recorder (its log is cut later), with metamorphic short I/O
    let mut fcfg = shim::FaultCfg::default();
    if scn.knobs.get("short_io").copied().unwrap_or(0) != 0 {
        fcfg.short_write_pm = 200;
        fcfg.short_read_pm = 200;
        fcfg.eintr_pm = 0;
    }
    shim::start(&dir, fcfg.clone(), scn.seed ^ 0xC29);
    shim::set_faults_enabled(true);
    let locked = guarded(|| lock_file(Path::new(&src), Some(Path::new(&cap)), PW));
    shim::set_faults_enabled(false);
    let lock_rec = shim::stop();
    match locked {
        Err(p) => vs.push((mk("no-panic", "lock", format!("lock_file panicked: {p}")), None)),
        Ok(Err(e)) => vs.push((mk("round-trip", "lock-fails", format!("lock_file failed on a valid {}-byte memory: {e}", plain.len())), None)),
        Ok(Ok(_)) => {}
    }
    let Ok(capsule) = std::fs::read(&cap) else {
        res.violations = vs.into_iter().map(|(v, _)| v).collect();
        res.evals = 1;
        return res;
    };
    let _ = lock_rec;
    shim::start(&dir, fcfg, scn.seed ^ 0x29C);
    shim::set_faults_enabled(true);
    let unlocked = guarded(|| unlock_file(Path::new(&cap), Some(Path::new(&out)), PW));
    shim::set_faults_enabled(false);
    let unlock_rec = shim::stop();
    match unlocked {
        Err(p) => vs.push((mk("no-panic", "unlock", format!("unlock_file panicked: {p}")), None)),
        Ok(Err(e)) => vs.push((mk("round-trip", "unlock-fails", format!("unlock of an untouched capsule failed: {e}")), None)),
        Ok(Ok(_)) => match std::fs::read(&out) {
            Ok(b) if b == plain => *stats.entry("round_trips_exact".into()).or_default() += 1,
            Ok(b) => vs.push((mk("round-trip", "bytes-differ", format!("unlock(lock(f)) has {} bytes, f has {}; first difference at {:?}", b.len(), plain.len(), b.iter().zip(plain.iter()).position(|(x, y)| x != y))), None)),
            Err(e) => vs.push((mk("round-trip", "no-output", format!("unlock returned Ok but the output is unreadable: {e}")), None)),
        },
    }
    // ---- 2. process crash inside unlock: the output path never holds anything but f
    if let Some(rec) = &unlock_rec {
        let base = disk::read_dir_image(&dir);
        let mut base = base;
        base.files.remove(OUT);
        let cuts: Vec<usize> = (1..=rec.log.len()).filter(|k| matches!(rec.log[k - 1].kind, Kind::Write | Kind::Trunc | Kind::Create | Kind::Rename | Kind::Unlink)).collect();
        let mut r = Rng::new(scn.seed, "capsule-cuts");
        let take = if explore { 24 } else { 0 };
        for _ in 0..take.min(cuts.len()) {
            let k = *r.pickv(&cuts);
            let img = disk::build(&rec.log, &base, &CrashSpec::Process { cut: k, partial: None });
            *stats.entry("crash_images".into()).or_default() += 1;
            if let Some(b) = img.files.get(OUT) {
                if *b != plain {
                    vs.push((mk("output-is-f-or-absent", "crash-mid-unlock", format!("a process crash after the {k}th syscall of unlock leaves {} bytes at the output path; f has {} bytes", b.len(), plain.len())), None));
                    break;
                }
            }
        }
    }
    let _ = std::fs::remove_file(&out);
    // ---- 3. damaged capsules
    let mut r = Rng::new(scn.seed, "capsule-faults");
    let faults: Vec<(Medium, String)> = if let Some(m) = &scn.medium {
        vec![(m.clone(), "explicit".into())]
    } else if explore {
        gen_faults(&mut r, &capsule, if scn.knobs.get("thorough").copied().unwrap_or(0) != 0 { 30 } else { 8 })
    } else {
        vec![]
    };
    let known: Vec<String> = crate::evidence::load_findings().into_iter().filter(|f| f.status == "known").map(|f| f.signature).collect();
    let mut unknown = 0;
    for (m, what) in &faults {
        if unknown >= 2 {
            break;
        }
        let bad = apply(&capsule, m);
        if bad == capsule {
            continue;
        }
        *stats.entry("damaged_capsules".into()).or_default() += 1;
        *stats.entry(format!("fault_{}", what.split('@').next().unwrap_or("x").replace('-', "_"))).or_default() += 1;
        let cpath = format!("{dir}/bad.mv2e");
        std::fs::write(&cpath, &bad).unwrap();
        let _ = std::fs::remove_file(&out);
        // half of the time an older output already exists at the path: it must stay untouched
        let pre = if r.chance(1, 2) {
            std::fs::write(&out, b"MV2\0 an older file at the output path").unwrap();
            Some(b"MV2\0 an older file at the output path".to_vec())
        } else {
            None
        };
        let rr = guarded(|| unlock_file(Path::new(&cpath), Some(Path::new(&out)), PW));
        let after = std::fs::read(&out).ok();
        let class = what.clone();
        match rr {
            Err(p) => vs.push((mk("no-panic", &class, format!("unlock panicked on a damaged capsule ({what}, {m:?}): {p}")), Some(m.clone()))),
            Ok(Ok(_)) => {
                *stats.entry("damaged_accepted".into()).or_default() += 1;
                let same = after.as_ref().is_some_and(|b| *b == plain);
                if same {
                    let region = class.split('@').nth(1).unwrap_or(class.as_str()).to_string();
                    vs.push((mk("tampering-rejected", &format!("{region}/plaintext-exact"), format!("unlock accepted a modified capsule ({what}, {m:?}); the plaintext it wrote equals f")), Some(m.clone())));
                } else {
                    vs.push((mk("never-a-different-plaintext", &class, format!("unlock accepted a modified capsule ({what}, {m:?}) and wrote {} bytes that differ from f ({} bytes)", after.as_ref().map(|b| b.len()).unwrap_or(0), plain.len())), Some(m.clone())));
                }
            }
            Ok(Err(_)) => {
                *stats.entry("damaged_rejected".into()).or_default() += 1;
                if after != pre {
                    vs.push((mk("never-a-different-plaintext", &format!("{class}/after-error"), format!("unlock failed on a modified capsule ({what}) but the output path changed: {:?} bytes now", after.as_ref().map(|b| b.len()))), Some(m.clone())));
                }
            }
        }
        let _ = std::fs::remove_file(&cpath);
        let n_before = vs.len();
        let _ = n_before;
        unknown = vs.iter().filter(|(v, _)| !known.contains(&crate::evidence::signature("C29", &v.oracle, &v.sig))).count();
    }
    let _ = std::fs::remove_file(&out);
    // ---- 4. I/O errors while unlocking: Err, and nothing but f (or nothing) at the output path
    if explore && r.chance(1, 2) {
        let mut f = shim::FaultCfg::default();
        f.enospc_pm = 60;
        f.eio_pm = 30;
        f.max_errors = 1;
        shim::start(&dir, f, scn.seed ^ 0xE29);
        shim::set_faults_enabled(true);
        let rr = guarded(|| unlock_file(Path::new(&cap), Some(Path::new(&out)), PW));
        shim::set_faults_enabled(false);
        let fired = shim::with_rec(|r| r.errors_fired).unwrap_or(0);
        let _ = shim::stop();
        if fired > 0 {
            *stats.entry("unlock_with_io_error".into()).or_default() += 1;
            let after = std::fs::read(&out).ok();
            match rr {
                Err(p) => vs.push((mk("no-panic", "io-error", format!("unlock panicked under an injected I/O error: {p}")), None)),
                Ok(_) => {
                    if let Some(b) = after {
                        if b != plain {
                            vs.push((mk("never-a-different-plaintext", "io-error", format!("after an injected I/O error the output path holds {} bytes that differ from f", b.len())), None));
                        }
                    }
                }
            }
        }
    }
    let _ = std::fs::remove_file(&out);
    for (k, v) in &stats {
        res.probes.insert(format!("capsule_{k}"), *v);
    }
    for (k, v) in stats.iter().filter(|(k, _)| k.starts_with("fault_")) {
        *res.faults_fired.entry(format!("capsule_{}", &k[6..])).or_default() += *v;
    }
    res.evals = 1;
    res.images = stats.get("damaged_capsules").copied().unwrap_or(0) + stats.get("crash_images").copied().unwrap_or(0);
    res.nontrivial = stats.get("round_trips_exact").copied().unwrap_or(0) > 0 && res.images > 0;
    res.class = format!("{}|{}", if plain.len() > 1024 * 1024 { "multi-chunk" } else { "single-chunk" }, stats.keys().filter(|k| k.starts_with("fault_")).cloned().collect::<Vec<_>>().join(","));
    let pick = vs.iter().find(|(v, _)| !known.contains(&crate::evidence::signature("C29", &v.oracle, &v.sig))).or(vs.first());
    if let Some((_, m)) = pick {
        let mut s = scn.clone();
        s.medium = m.clone();
        res.repro = Some(s);
    }
    // one representative per signature
    let mut seen: Vec<String> = Vec::new();
    for (v, _) in vs {
        let sg = crate::evidence::signature("C29", &v.oracle, &v.sig);
        if !seen.contains(&sg) {
            seen.push(sg);
            res.violations.push(v);
        }
    }
    res.sample = Some(serde_json::json!({"plain_bytes": plain.len(), "capsule_bytes": capsule.len(), "faults": faults.iter().take(8).map(|(m, w)| format!("{w}: {m:?}")).collect::<Vec<_>>()}));
    res.wall_ms = shim::real_ms() - t0;
    res
}

pub fn gen_capsule(seed: u64, tier: crate::checks::Tier) -> Scenario {
    let mut r = Rng::new(seed, "capsule");
    let env = crate::gen::env_for(seed, &mut r);
    let mut ops = vec![Op::Create];
    // sizes: most files a few hundred KiB, some above 1 MiB and 2 MiB (the capsule chunk size is 1 MiB)
    let target = *r.pickv(&[0usize, 50_000, 300_000, 1_100_000, 1_100_000, 2_200_000]);
    let mut total = 0usize;
    let mut k = 0;
    while total < target && k < 12 {
        let len = r.range(60_000, 290_000) as usize;
        let mut p = PutSpec { pay: Some(Pay::new(PK::Bin, len, r.next())), ts: Some(k as i64), ..Default::default() };
        p.uri = Some(format!("mv2://blob/{k}"));
        ops.push(Op::Put(p));
        if r.chance(1, 3) {
            ops.push(Op::Commit);
        }
        total += len;
        k += 1;
    }
    if r.chance(1, 2) {
        let mut p = PutSpec { pay: Some(Pay::new(PK::Text, r.range(20, 900) as usize, r.next())), ts: Some(99), ..Default::default() };
        p.uri = Some("mv2://note".into());
        ops.push(Op::Put(p));
    }
    ops.push(Op::Commit);
    let mut knobs = BTreeMap::new();
    if r.chance(1, 3) {
        knobs.insert("short_io".to_string(), 1);
    }
    if tier == crate::checks::Tier::Thorough {
        knobs.insert("thorough".to_string(), 1);
    }
    Scenario { seed, env, ops, fault: Default::default(), fault_ops: vec![], post: None, medium: None, knobs }
}
