//! Crash-point exploration over a recorded execution: one execution yields all of its
//! crash points (process crash, power loss, nested crashes during recovery).
use crate::disk::{self, CrashSpec, FsImage};
use crate::model::Model;
use crate::ops::*;
use crate::oracle;
use crate::rng::Rng;
use crate::shim::{self, Kind, LogOp};
use crate::world::{Segment, Violation, World, FILE};
use memvid_core::Memvid;
use serde::{Deserialize, Serialize};
use std::panic::{catch_unwind, AssertUnwindSafe};

#[derive(Serialize, Deserialize, Clone, Debug, PartialEq)]
pub struct CrashPoint {
    pub seg: usize,
    pub spec: CrashSpec,
    /// crashes inside the recovery that follows (each relative to that recovery's own log)
    #[serde(default)]
    pub nested: Vec<CrashSpec>,
}

#[derive(Default, Clone, Debug)]
pub struct CrashStats {
    pub images: u64,
    pub opens_ok: u64,
    pub opens_failed_allowed: u64,
    pub recovered_records: u64,
    pub nested_images: u64,
    pub partial_cuts: u64,
    pub power_images: u64,
    pub torn: u64,
    pub dropped_writes: u64,
    pub lost_rename: u64,
    pub inflight_cuts: u64,
    pub ms_build: u64,
    pub ms_open: u64,
    pub ms_compare: u64,
    pub image_hashes: Vec<String>,
}

/// Stable class of an error message: digits and paths removed.
pub fn sig_of(e: &str) -> String {
    let head = e.split(" at offset").next().unwrap_or(e);
    let s: String = head.chars().filter(|c| !c.is_ascii_digit()).take(70).collect();
    let tail = e.rsplit(": ").next().unwrap_or("");
    let t: String = tail.chars().filter(|c| !c.is_ascii_digit()).take(50).collect();
    format!("{}~{}", s.trim().replace(' ', "-"), t.trim().replace(' ', "-"))
}

fn mutating(k: Kind) -> bool {
    matches!(k, Kind::Write | Kind::Trunc | Kind::Create | Kind::Rename | Kind::Unlink)
}

/// (in-flight op, last completed op) at cut k
pub fn position(log: &[LogOp], cut: usize) -> (Option<usize>, Option<usize>) {
    let mut inflight = None;
    let mut last_end = None;
    for op in &log[..cut.min(log.len())] {
        match op.kind {
            Kind::Begin => inflight = Some(op.off as usize),
            Kind::End => {
                last_end = Some(op.off as usize);
                inflight = None;
            }
            _ => {}
        }
    }
    (inflight, last_end)
}

/// Candidate process-crash cuts: after every mutating syscall (other cuts give identical images).
pub fn candidate_cuts(log: &[LogOp]) -> Vec<usize> {
    (1..=log.len()).filter(|k| mutating(log[k - 1].kind)).collect()
}

pub fn sample_process(log: &[LogOp], r: &mut Rng, max: usize, all: bool, partial: bool) -> Vec<CrashSpec> {
    let cuts = candidate_cuts(log);
    let mut out: Vec<CrashSpec> = Vec::new();
    if cuts.is_empty() {
        return out;
    }
    if all {
        for k in &cuts {
            out.push(CrashSpec::Process { cut: *k, partial: None });
        }
        // partial application of every write (a few byte counts each)
        for k in &cuts {
            let op = &log[*k - 1];
            if partial && op.kind == Kind::Write && op.len > 1 {
                for p in partial_points(op.off, op.len, r) {
                    out.push(CrashSpec::Process { cut: *k - 1, partial: Some(p) });
                }
            }
        }
        if out.len() > max {
            // keep a seeded subset but always the plain cuts first
            let plain = cuts.len().min(max);
            let mut rest: Vec<CrashSpec> = out.split_off(plain);
            while out.len() < max && !rest.is_empty() {
                let i = r.below(rest.len() as u64) as usize;
                out.push(rest.swap_remove(i));
            }
        }
        return out;
    }
    // stratified: weight cuts right after trunc / rename / header writes / big copies, and
    // the cut just before each fsync
    let mut weights: Vec<u32> = Vec::with_capacity(cuts.len());
    for k in &cuts {
        let op = &log[*k - 1];
        let next_is_sync = log.get(*k).is_some_and(|n| matches!(n.kind, Kind::Fsync | Kind::FsyncDir));
        let w = match op.kind {
            Kind::Rename | Kind::Unlink | Kind::Create => 8,
            Kind::Trunc => 6,
            Kind::Write if op.off < 4096 => 6,
            Kind::Write if op.name == "copy" => 5,
            Kind::Write if op.len == 48 => 2,
            _ => 3,
        } + if next_is_sync { 2 } else { 0 };
        weights.push(w);
    }
    let n = max.min(cuts.len() * 2);
    for _ in 0..n {
        let i = r.weighted(&weights);
        let k = cuts[i];
        let op = &log[k - 1];
        let pts = if partial && op.kind == Kind::Write && op.len > 1 { partial_points(op.off, op.len, r) } else { Vec::new() };
        if !pts.is_empty() && r.chance(1, 2) {
            out.push(CrashSpec::Process { cut: k - 1, partial: Some(*r.pickv(&pts)) });
        } else {
            out.push(CrashSpec::Process { cut: k, partial: None });
        }
    }
    out.sort_by_key(|c| match c {
        CrashSpec::Process { cut, partial } => (*cut, partial.unwrap_or(u64::MAX)),
        _ => (0, 0),
    });
    out.dedup();
    out
}

/// Where a process can be killed inside one write(): the kernel copies page by page and checks for
/// a fatal signal between pages, so the surviving prefix ends on a page boundary of the file.
fn partial_points(off: u64, len: u64, r: &mut Rng) -> Vec<u64> {
    let first = 4096 - (off % 4096);
    let mut v: Vec<u64> = Vec::new();
    let mut p = first;
    while p < len {
        v.push(p);
        p += 4096;
    }
    if v.len() > 3 {
        // first boundary, last boundary, one in between
        let mid = v[r.range(1, v.len() as u64 - 2) as usize];
        v = vec![v[0], mid, *v.last().unwrap()];
    }
    v
}

pub fn sample_power(log: &[LogOp], r: &mut Rng, max: usize, all_cuts: bool) -> Vec<CrashSpec> {
    let cuts = candidate_cuts(log);
    let mut out = Vec::new();
    if cuts.is_empty() {
        return out;
    }
    let chosen: Vec<usize> = if all_cuts { cuts.clone() } else { (0..max).map(|_| *r.pickv(&cuts)).collect() };
    for k in chosen {
        // also consider the cut right after the following sync / markers (same process image,
        // different durability frontier)
        let mut k2 = k;
        if r.chance(1, 2) {
            while k2 < log.len() && !mutating(log[k2].kind) {
                k2 += 1;
            }
        }
        let cut = k2;
        let (data, dir) = disk::unsynced(log, cut);
        let writes: Vec<usize> = data.iter().copied().filter(|i| log[*i].kind == Kind::Write).collect();
        let variant = r.below(8);
        let mut drop: Vec<usize> = Vec::new();
        let mut tear = None;
        let mut dir_keep = dir.len();
        match variant {
            0 => drop = data.clone(),                           // nothing un-synced survives
            1 => {}                                             // everything survives
            2 => {
                if let Some(l) = data.last() {
                    drop.push(*l);
                }
            }
            3 => {
                // only the header-area writes survive
                drop = data.iter().copied().filter(|i| !(log[*i].kind == Kind::Write && log[*i].off < 4096)).collect();
            }
            4 => {
                // rename survives but un-synced staging data does not / or rename lost
                dir_keep = if r.chance(1, 2) { 0 } else { dir.len() };
                drop = data.clone();
            }
            5 => {
                if let Some(w) = writes.last() {
                    let len = log[*w].len;
                    if len > 1 {
                        let at = if len > 512 { 512 * r.range(1, (len - 1) / 512) } else { r.range(1, len - 1) };
                        tear = Some((*w, at));
                    }
                }
            }
            _ => {
                for i in &data {
                    if r.chance(1, 2) {
                        drop.push(*i);
                    }
                }
                if !dir.is_empty() {
                    dir_keep = r.below(dir.len() as u64 + 1) as usize;
                }
                if r.chance(1, 3) {
                    let alive: Vec<usize> = writes.iter().copied().filter(|w| !drop.contains(w) && log[*w].len > 1).collect();
                    if let Some(w) = alive.last() {
                        let len = log[*w].len;
                        tear = Some((*w, r.range(1, len - 1)));
                    }
                }
            }
        }
        out.push(CrashSpec::Power { cut, drop, tear, dir_keep });
    }
    // Systematic part: power fails right after an API call returned and nothing that was not yet
    // synced survives. This is the durability clause in its plainest form, so it is not left to
    // the random sample: every acknowledged call that leaves un-synced data behind gets such a cut
    // (up to max/2 of them, chosen by the seed).
    let mut acks: Vec<CrashSpec> = Vec::new();
    for (e, op) in log.iter().enumerate() {
        if op.kind != Kind::End {
            continue;
        }
        let cut = e + 1;
        let (data, dir) = disk::unsynced(log, cut);
        if data.is_empty() && dir.is_empty() {
            continue;
        }
        acks.push(CrashSpec::Power { cut, drop: data, tear: None, dir_keep: 0 });
    }
    let keep = if all_cuts { acks.len() } else { (max / 2).max(4) };
    while acks.len() > keep {
        let i = r.below(acks.len() as u64) as usize;
        acks.swap_remove(i);
    }
    out.extend(acks);
    out
}

pub struct Eval<'a> {
    /// durability mode (C03): frames beyond the acknowledged table are tolerated
    pub lenient: bool,
    pub root: &'a str,
    pub counter: usize,
    pub stats: CrashStats,
    /// what the log held when the crash happened: "inserts-pending", "tombstones-only",
    /// "nothing-pending" (part of the signature of findings about open-time recovery)
    pub pending_class: String,
}

pub struct OpenOutcome {
    pub mem: Option<Memvid>,
    pub err: Option<String>,
    pub panicked: Option<String>,
}

pub fn try_open(path: &str) -> OpenOutcome {
    match catch_unwind(AssertUnwindSafe(|| Memvid::open(path))) {
        Ok(Ok(m)) => OpenOutcome { mem: Some(m), err: None, panicked: None },
        Ok(Err(e)) => OpenOutcome { mem: None, err: Some(format!("{e}")), panicked: None },
        Err(p) => {
            let msg = p.downcast_ref::<String>().cloned().or_else(|| p.downcast_ref::<&str>().map(|s| s.to_string())).unwrap_or_else(|| "panic".into());
            OpenOutcome { mem: None, err: None, panicked: Some(msg) }
        }
    }
}

/// Logical observation of a handle: frame table + content hashes (for equality between handles).
pub fn observe(mem: &mut Memvid) -> Vec<String> {
    let mut v = Vec::new();
    let n = mem.frame_count() as u64;
    for id in 0..n {
        match mem.frame_by_id(id) {
            Ok(f) => {
                let content = if f.status == memvid_core::FrameStatus::Active {
                    match mem.frame_canonical_payload(id) {
                        Ok(b) => blake3::hash(&b).to_hex()[..12].to_string(),
                        Err(e) => format!("ERR({})", format!("{e}").chars().take(60).collect::<String>()),
                    }
                } else {
                    "-".into()
                };
                v.push(format!("{}|{:?}|{:?}|{:?}|{:?}|{:?}|{:?}|{}|{}", f.id, f.uri, f.status, f.role, f.parent_id, f.supersedes, f.superseded_by, f.timestamp, content));
            }
            Err(e) => v.push(format!("{id}|MISSING {e}")),
        }
    }
    v
}

impl<'a> Eval<'a> {
    pub fn new(root: &'a str) -> Self {
        Eval { lenient: false, root, counter: 0, stats: CrashStats::default(), pending_class: String::new() }
    }

    /// In-place rewrite paths whose every failure mode is one finding (identified by call site).
    fn sig_for(&self, ctx: &str, class: &str) -> String {
        if ctx.starts_with("open:") {
            format!("open:recovery/{}/{}", self.pending_class, class)
        } else if ctx.ends_with(":inplace-resize") {
            ctx.to_string()
        } else if ctx == "vacuum:after-rename" {
            // vacuum = commit (staged) followed by an in-place rewrite of the payload region
            "vacuum:inplace-rewrite".to_string()
        } else {
            format!("{ctx}/{class}")
        }
    }

    fn fresh_dir(&mut self) -> String {
        self.counter += 1;
        format!("{}/c{}", self.root, self.counter)
    }

    /// Evaluate one crash point against the candidate expected states.
    /// `cands`: acceptable recovered models; `may_fail_open`: the file may legitimately not open
    /// (crash inside create).
    pub fn eval(&mut self, seg: &Segment, cp: &CrashPoint, cands: &[Model], may_fail_open: bool, props: &[&str], ctx: &str, nested_explore: Option<(&mut Rng, usize)>) -> Vec<(Violation, CrashPoint)> {
        let mut out: Vec<(Violation, CrashPoint)> = Vec::new();
        let t_a = shim::real_ms();
        let img = disk::build(&seg.log, &seg.base, &cp.spec);
        self.stats.ms_build += shim::real_ms() - t_a;
        self.stats.images += 1;
        match &cp.spec {
            CrashSpec::Process { partial, .. } => {
                if partial.is_some() {
                    self.stats.partial_cuts += 1;
                }
            }
            CrashSpec::Power { drop, tear, dir_keep, cut } => {
                self.stats.power_images += 1;
                self.stats.dropped_writes += drop.len() as u64;
                if tear.is_some() {
                    self.stats.torn += 1;
                }
                let (_d, dirops) = disk::unsynced(&seg.log, *cut);
                if *dir_keep < dirops.len() {
                    self.stats.lost_rename += 1;
                }
            }
        }
        if self.stats.image_hashes.len() < 4000 {
            let mut h = blake3::Hasher::new();
            for (n, c) in &img.files {
                h.update(n.as_bytes());
                h.update(c);
            }
            self.stats.image_hashes.push(h.finalize().to_hex()[..12].to_string());
        }
        let pv: Vec<String> = props.iter().map(|s| s.to_string()).collect();
        let mk = |oracle: &str, sig: &str, msg: String| Violation { props: pv.clone(), oracle: oracle.to_string(), sig: sig.to_string(), msg, op: 0 };
        if !img.files.contains_key(FILE) {
            if !may_fail_open && cands.iter().all(|c| c.exists) {
                out.push((mk("file-present", "", format!("memory file missing after crash {:?}", cp.spec)), cp.clone()));
            }
            return out;
        }
        // run the recovery; when nested crashes are requested, under the recorder
        let mut cur_img = img;
        let mut nested_done: Vec<CrashSpec> = Vec::new();
        for nspec in cp.nested.iter() {
            let dir = self.fresh_dir();
            disk::materialize(&cur_img, &dir).unwrap();
            shim::start(&dir, Default::default(), 0);
            let o = try_open(&format!("{dir}/{FILE}"));
            if let Some(m) = o.mem {
                drop(m);
            }
            let rec = shim::stop().unwrap();
            let next = disk::build(&rec.log, &cur_img, nspec);
            let _ = std::fs::remove_dir_all(&dir);
            self.stats.nested_images += 1;
            cur_img = next;
            nested_done.push(nspec.clone());
        }
        let dir = self.fresh_dir();
        disk::materialize(&cur_img, &dir).unwrap();
        let path = format!("{dir}/{FILE}");
        let record = nested_explore.is_some();
        if record {
            shim::start(&dir, Default::default(), 0);
        }
        let t_b = shim::real_ms();
        let o = try_open(&path);
        self.stats.ms_open += shim::real_ms() - t_b;
        let rec = if record { shim::stop() } else { None };
        if let Some(p) = o.panicked {
            out.push((mk("open-no-panic", "", format!("open panicked on crash image {:?}: {p}", cp)), cp.clone()));
            let _ = std::fs::remove_dir_all(&dir);
            return out;
        }
        let Some(mut mem) = o.mem else {
            if may_fail_open {
                self.stats.opens_failed_allowed += 1;
            } else {
                let e = o.err.unwrap_or_default();
                let reason: String = e.rsplit(": ").next().unwrap_or("").chars().filter(|c| !c.is_ascii_digit()).take(48).collect::<String>().trim().replace(' ', "-");
                // One cause, many phases: a write into the log region that was torn (or, un-synced,
                // lost) makes the next open fail on the log's tail. That finding is identified by the
                // damaged write, not by the call during which the power failed.
                let wal_size = cur_img.files.get(FILE).filter(|b| b.len() >= 32).map(|b| u64::from_le_bytes(b[24..32].try_into().unwrap())).unwrap_or(65536).clamp(65536, 1 << 32);
                let in_wal = |i: usize| seg.log.get(i).is_some_and(|o| o.kind == Kind::Write && o.off >= 4096 && o.off < 4096 + wal_size);
                let wal_write_damaged = match &cp.spec {
                    CrashSpec::Power { drop, tear, .. } => tear.is_some_and(|(i, _)| in_wal(i)) || drop.iter().any(|i| in_wal(*i)),
                    CrashSpec::Process { cut, partial } => partial.is_some() && in_wal(*cut),
                };
                let sig = if reason.starts_with("wal-record") && wal_write_damaged && nested_done.is_empty() { format!("log-write-torn-or-lost/open-fails:{reason}") } else { self.sig_for(ctx, &format!("open-fails:{reason}")) };
                out.push((mk("crash-state", &sig, format!("[{ctx}] open failed after {:?} nested {:?}: {e}", cp.spec, nested_done)), cp.clone()));
            }
            let _ = std::fs::remove_dir_all(&dir);
            return out;
        };
        self.stats.opens_ok += 1;
        // compare with each acceptable state
        let mut best: Option<Vec<oracle::Mis>> = None;
        if self.lenient && !cands.is_empty() && cands[0].exists && !cands.iter().any(|c| c.unpredictable) {
            // durability reading: what was acknowledged (cands[0]) must be there, frame by frame
            // equal to its acknowledged version or to the version the in-flight operation makes
            best = Some(oracle::diff_durable(&mut mem, &cands[0], cands.get(1), "power-loss"));
        }
        for c in cands {
            if self.lenient && best.is_some() {
                break;
            }
            if !c.exists {
                continue;
            }
            if c.unpredictable {
                best = Some(Vec::new());
                break;
            }
            let (mis, _n) = oracle::diff_model_ext(&mut mem, c, false, "crash-recovery", self.lenient);
            if mis.is_empty() {
                best = Some(mis);
                break;
            }
            if best.as_ref().is_none_or(|b| mis.len() < b.len()) {
                best = Some(mis);
            }
        }
        if let Some(mis) = &best {
            if !mis.is_empty() {
                let n_real = mem.frame_count();
                let sizes: Vec<usize> = cands.iter().map(|c| c.frames.len()).collect();
                let class = if cands.len() == 2 && n_real > sizes[0] && n_real < sizes[1] { "partial-inflight-op" } else if n_real < sizes[0] { "acked-frames-missing" } else { mis[0].oracle };
                let sig = self.sig_for(ctx, class);
                let sig = sig.as_str();
                out.push((
                    mk(
                        "crash-state",
                        sig,
                        format!("[{ctx}] after {:?} nested {:?}: reopened memory ({} frames) matches none of the {} allowed states (sizes {:?}); closest differs by: {}", cp.spec, nested_done, n_real, cands.len(), sizes, mis.iter().take(3).map(|m| m.msg.clone()).collect::<Vec<_>>().join(" | ")),
                    ),
                    cp.clone(),
                ));
            }
        }
        self.stats.ms_compare += shim::real_ms() - t_b;
        let obs = observe(&mut mem);
        // nested exploration: crash inside this recovery, the final open must give the same state
        if let (Some((r, depth)), Some(rec)) = (nested_explore, rec) {
            let rlog = rec.log;
            if candidate_cuts(&rlog).len() > 1 && depth > 0 {
                self.stats.recovered_records += 1;
                drop(mem);
                let specs = sample_process(&rlog, r, 6, false, false);
                for ns in specs {
                    let mut chain = vec![ns.clone()];
                    let mut img2 = disk::build(&rlog, &cur_img, &ns);
                    // deeper nesting: crash the second recovery as well
                    let mut d = 1;
                    let mut fin_obs: Option<Vec<String>> = None;
                    let mut fail: Option<String> = None;
                    loop {
                        let dir2 = self.fresh_dir();
                        disk::materialize(&img2, &dir2).unwrap();
                        shim::start(&dir2, Default::default(), 0);
                        let o2 = try_open(&format!("{dir2}/{FILE}"));
                        let rec2 = shim::stop().unwrap();
                        self.stats.nested_images += 1;
                        if let Some(p) = o2.panicked {
                            fail = Some(format!("panic: {p}"));
                            let _ = std::fs::remove_dir_all(&dir2);
                            break;
                        }
                        match o2.mem {
                            None => {
                                fail = Some(format!("open failed: {}", o2.err.unwrap_or_default()));
                                let _ = std::fs::remove_dir_all(&dir2);
                                break;
                            }
                            Some(mut m2) => {
                                if d < depth && r.chance(1, 2) && candidate_cuts(&rec2.log).len() > 1 {
                                    drop(m2);
                                    let s3 = sample_process(&rec2.log, r, 1, false, false);
                                    if let Some(s3) = s3.into_iter().next() {
                                        img2 = disk::build(&rec2.log, &img2, &s3);
                                        chain.push(s3);
                                        d += 1;
                                        let _ = std::fs::remove_dir_all(&dir2);
                                        continue;
                                    }
                                    let _ = std::fs::remove_dir_all(&dir2);
                                    break;
                                } else {
                                    fin_obs = Some(observe(&mut m2));
                                    drop(m2);
                                    let _ = std::fs::remove_dir_all(&dir2);
                                    break;
                                }
                            }
                        }
                    }
                    let mut cpn = cp.clone();
                    cpn.nested = chain.clone();
                    if let Some(f) = fail {
                        let reason: String = f.rsplit(": ").next().unwrap_or("").chars().filter(|c| !c.is_ascii_digit()).take(48).collect::<String>().trim().replace(' ', "-");
                        let sig = format!("{}/{}:{reason}", self.pending_class, if f.starts_with("panic") { "panic" } else { "open-fails" });
                        out.push((Violation { props: vec!["C04".into()], oracle: "recovery-crash-safe".into(), sig, msg: format!("crash inside recovery {:?} then {:?}: {f}", cp.spec, chain), op: 0 }, cpn.clone()));
                    } else if let Some(fo) = fin_obs {
                        if fo != obs {
                            let diff = fo.iter().zip(obs.iter()).position(|(a, b)| a != b).unwrap_or(fo.len().min(obs.len()));
                            out.push((
                                Violation {
                                    props: vec!["C04".into()],
                                    oracle: "recovery-crash-safe".into(),
                                    sig: format!("{}/state-differs", self.pending_class),
                                    msg: format!("crash inside recovery {:?} then {:?}: final state differs from uninterrupted recovery at frame {diff}: {:?} vs {:?} ({} vs {} frames)", cp.spec, chain, fo.get(diff), obs.get(diff), fo.len(), obs.len()),
                                    op: 0,
                                },
                                cpn.clone(),
                            ));
                        }
                    }
                }
                // idempotence: open the recovered file again, nothing changes
                let dir3 = self.fresh_dir();
                disk::materialize(&cur_img, &dir3).unwrap();
                let p3 = format!("{dir3}/{FILE}");
                if let Some(m) = try_open(&p3).mem {
                    drop(m);
                    if let Some(mut m2) = try_open(&p3).mem {
                        let o2 = observe(&mut m2);
                        if o2 != obs {
                            out.push((Violation { props: vec!["C04".into()], oracle: "reopen-idempotent".into(), sig: String::new(), msg: format!("opening a recovered file again changed frames ({} vs {})", o2.len(), obs.len()), op: 0 }, cp.clone()));
                        }
                    } else {
                        out.push((Violation { props: vec!["C04".into()], oracle: "reopen-idempotent".into(), sig: "second-open-fails".into(), msg: "a recovered file failed to open a second time".into(), op: 0 }, cp.clone()));
                    }
                }
                let _ = std::fs::remove_dir_all(&dir3);
            } else {
                drop(mem);
            }
        } else {
            drop(mem);
        }
        let _ = std::fs::remove_dir_all(&dir);
        out
    }
}

/// Which call site / phase a cut falls into (part of the violation signature).
pub fn phase(log: &[LogOp], cut: usize, ops: &[Op]) -> String {
    let cut = cut.min(log.len());
    let mut begin = None;
    for (i, op) in log[..cut].iter().enumerate() {
        match op.kind {
            Kind::Begin => begin = Some((i, op.off as usize)),
            Kind::End => begin = None,
            _ => {}
        }
    }
    let Some((b, api)) = begin else { return "between-ops".to_string() };
    let kind = ops.get(api).map(|o| o.kind_name()).unwrap_or("?");
    let mut created: Vec<u32> = Vec::new();
    let mut inplace_resize = false;
    let mut staging_open = false;
    let mut renamed = false;
    for op in &log[b..cut] {
        match op.kind {
            Kind::Create => {
                created.push(op.ino);
                staging_open = true;
            }
            Kind::Rename => {
                staging_open = false;
                renamed = true;
            }
            Kind::Trunc => {
                if !created.contains(&op.ino) && op.name != "fallocate" {
                    inplace_resize = true;
                }
            }
            _ => {}
        }
    }
    let ph = if inplace_resize && !renamed && !staging_open {
        "inplace-resize"
    } else if staging_open {
        "staging"
    } else if renamed {
        "after-rename"
    } else {
        "plain"
    };
    format!("{kind}:{ph}")
}

/// Allowed recovered states at a cut of segment `seg`.
/// What kind of records the embedded log holds un-applied at cut `cut` (see Eval::pending_class).
pub fn pending_class(w: &World, seg: &Segment, cut: usize, first_op_of_seg_model: &Model, ops: &[Op]) -> String {
    let (inflight, last_end) = position(&seg.log, cut);
    let base: Model = match (inflight, last_end) {
        (Some(i), _) => {
            if i == 0 { Model::default() } else { w.snaps.get(i - 1).cloned().unwrap_or_default() }
        }
        (None, Some(j)) => w.snaps.get(j).cloned().unwrap_or_default(),
        (None, None) => first_op_of_seg_model.clone(),
    };
    let mut ins = base.pending.iter().any(|p| matches!(p, crate::model::POp::Insert(_)));
    let mut tomb = base.pending.iter().any(|p| matches!(p, crate::model::POp::Tombstone(_)));
    if let Some(i) = inflight {
        match ops.get(i) {
            Some(Op::Put(_)) | Some(Op::PutSteer { .. }) | Some(Op::Update { .. }) | Some(Op::UpdateUri { .. }) => ins = true,
            Some(Op::Delete { .. }) | Some(Op::DeleteUri { .. }) => tomb = true,
            _ => {}
        }
    }
    if ins { "inserts-pending" } else if tomb { "tombstones-only" } else { "nothing-pending" }.to_string()
}

/// Power-loss reading of `allowed_states`: the first candidate is what must at least be there
/// (operations acknowledged inside an un-ended skip_sync batch are not owed), the second what may
/// be there in addition.
pub fn allowed_states_power(w: &World, seg: &Segment, cut: usize, first_op_of_seg_model: &Model) -> (Vec<Model>, bool) {
    let (inflight, last_end) = position(&seg.log, cut);
    let snap_after = |i: usize| -> Model { w.snaps.get(i).cloned().unwrap_or_default() };
    let before = |i: usize| -> Model { if i == 0 { Model::default() } else { snap_after(i - 1) } };
    let mut cands = Vec::new();
    let mut may_fail = false;
    match inflight {
        Some(i) => {
            let a = before(i);
            let b = snap_after(i);
            if !a.exists {
                may_fail = true;
            }
            cands.push(a.recovered_durable());
            cands.push(b.recovered());
            if b.cards_committed != a.cards_committed || b.mesh_committed != a.mesh_committed {
                let mut c = b.clone();
                c.cards_committed = a.cards_committed.min(c.cards.len());
                c.mesh_committed = (a.mesh_committed.0.min(c.mesh_nodes.len()), a.mesh_committed.1.min(c.mesh_edges.len()));
                cands.push(c.recovered_keep_commit_marks());
            }
        }
        None => {
            let a = match last_end {
                Some(j) => snap_after(j),
                None => first_op_of_seg_model.clone(),
            };
            cands.push(a.recovered_durable());
            if a.undurable_pending > 0 {
                cands.push(a.recovered());
            }
        }
    }
    (cands, may_fail)
}

pub fn allowed_states(w: &World, seg: &Segment, cut: usize, first_op_of_seg_model: &Model) -> (Vec<Model>, bool) {
    let (inflight, last_end) = position(&seg.log, cut);
    let snap_after = |i: usize| -> Model { w.snaps.get(i).cloned().unwrap_or_default() };
    let before = |i: usize| -> Model { if i == 0 { Model::default() } else { snap_after(i - 1) } };
    let mut cands = Vec::new();
    let mut may_fail = false;
    match inflight {
        Some(i) => {
            let a = before(i);
            let b = snap_after(i);
            if !a.exists {
                may_fail = true; // crash inside create
            }
            cands.push(a.recovered());
            cands.push(b.recovered());
            // cards and mesh entries are not logged: an in-flight call whose log record survived
            // but whose commit did not finish shows the frames of `b` with the tracks of `a`
            if b.cards_committed != a.cards_committed || b.mesh_committed != a.mesh_committed {
                let mut c = b.clone();
                c.cards_committed = a.cards_committed.min(c.cards.len());
                c.mesh_committed = (a.mesh_committed.0.min(c.mesh_nodes.len()), a.mesh_committed.1.min(c.mesh_edges.len()));
                cands.push(c.recovered_keep_commit_marks());
            }
        }
        None => match last_end {
            Some(j) => cands.push(snap_after(j).recovered()),
            None => cands.push(first_op_of_seg_model.recovered()),
        },
    }
    (cands, may_fail)
}
