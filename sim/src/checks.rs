//! The per-property check table.
use crate::gen;
use crate::ops::*;
use crate::runner::{self, RunResult};
use crate::world::World;

#[derive(Clone, Copy, Debug, PartialEq, Eq)]
pub enum Tier {
    Quick,
    Thorough,
}

pub struct CheckDef {
    pub id: &'static str,
    pub level: &'static str,
    pub quick_s: u64,
    pub thorough_s: u64,
    pub gen: fn(u64, Tier) -> Scenario,
    /// (scenario, property, explore): explore = enumerate the post space; otherwise follow scn.post literally
    pub run: fn(&Scenario, &str, bool) -> RunResult,
    pub rule: &'static str,
    pub assumptions: &'static [&'static str],
    /// probes that must be non-zero for the batch to count as having reached the interesting states
    pub want_probes: &'static [&'static str],
}

fn run_history(scn: &Scenario, prop: &str, _explore: bool) -> RunResult {
    let t0 = crate::shim::real_ms();
    runner::setup_env(scn);
    let root = runner::scratch_root();
    let mut w = World::new(&root, scn);
    w.run(&scn.ops);
    let mut r = runner::collect(&mut w, scn, prop, t0);
    r.sample = Some(runner::sample_of(scn, &w));
    r
}

fn gen_c01(seed: u64, tier: Tier) -> Scenario {
    gen::gen_history(seed, if tier == Tier::Quick { 24 } else { 40 }, true, false)
}

pub const RULE_HISTORY: &str = "seeded random histories (swarm mix of op kinds, payload classes, WAL steering); a run is non-trivial iff >=1 mutation was acknowledged and >=1 full model comparison ran on a reopened handle; distinct = distinct (op-kind count buckets, fault kinds fired, rare-state probes hit) classes among non-trivial runs";

pub fn all() -> Vec<CheckDef> {
    vec![CheckDef {
        id: "C01",
        level: "exploration",
        quick_s: 45,
        thorough_s: 600,
        gen: gen_c01,
        run: run_history,
        rule: RULE_HISTORY,
        assumptions: &["reference model of put/update/delete/commit/drop/open semantics (sim/src/model.rs)", "chunk split taken from the library's public preview_chunks"],
        want_probes: &["auto_checkpoint", "replay_on_open", "chunked_puts"],
    }]
}

pub fn find(id: &str) -> Option<CheckDef> {
    all().into_iter().find(|c| c.id == id)
}
