//! The per-property check table.
use crate::crash::{self, CrashPoint, Eval};
use crate::disk::CrashSpec;
use crate::gen;
use crate::model::Model;
use crate::ops::*;
use crate::rng::Rng;
use crate::runner::{self, RunResult, ViolationRec};
use crate::world::World;

#[derive(Clone, Copy, Debug, PartialEq, Eq)]
pub enum Tier {
    Quick,
    Thorough,
}

pub struct CheckDef {
    pub id: &'static str,
    pub level: &'static str,
    pub quick_s: u64,
    pub thorough_s: u64,
    pub gen: fn(u64, Tier) -> Scenario,
    /// (scenario, property, explore): explore = enumerate the post space; otherwise follow scn.post literally
    pub run: fn(&Scenario, &str, bool) -> RunResult,
    pub rule: &'static str,
    pub assumptions: &'static [&'static str],
    /// probes that must be non-zero for the batch to count as having reached the interesting states
    pub want_probes: &'static [&'static str],
}

fn exec_history(scn: &Scenario) -> (World, u64) {
    let t0 = crate::shim::real_ms();
    runner::setup_env(scn);
    let root = runner::scratch_root();
    let mut w = World::new(&root, scn);
    w.run(&scn.ops);
    (w, t0)
}

fn run_history(scn: &Scenario, prop: &str, _explore: bool) -> RunResult {
    let (mut w, t0) = exec_history(scn);
    let mut r = runner::collect(&mut w, scn, prop, t0);
    r.sample = Some(runner::sample_of(scn, &w));
    r
}

fn tier_of(scn: &Scenario) -> Tier {
    if scn.knobs.get("thorough").copied().unwrap_or(0) != 0 { Tier::Thorough } else { Tier::Quick }
}

/// C02 / C03 / C04: run the history fault-free under the recorder, then explore crash points.
fn run_crash(scn: &Scenario, prop: &str, explore: bool) -> RunResult {
    let (mut w, t0) = exec_history(scn);
    w.finish_segment();
    let tier = tier_of(scn);
    let power = prop == "C03";
    let nested = prop == "C04";
    let root = w.root.clone();
    let mut ev = Eval::new(&root);
    ev.lenient = power;
    let mut r = Rng::new(scn.seed, "crash-points");
    let mut found: Vec<(crate::world::Violation, CrashPoint)> = Vec::new();
    let known: Vec<String> = crate::evidence::load_findings().into_iter().filter(|f| f.status == "known").map(|f| f.signature).collect();
    let mut unknown = 0usize;
    let soft_ms: u64 = if tier == Tier::Quick { 90_000 } else { 300_000 };
    // model at the start of each segment
    let seg_start_model = |w: &World, si: usize| -> Model {
        let first = w.recs.iter().find(|x| x.seg == si).map(|x| x.i).unwrap_or(0);
        if first == 0 { Model::default() } else { w.snaps.get(first - 1).cloned().unwrap_or_default() }
    };
    let history_broken = w.violations.iter().any(|v| v.props.iter().any(|p| p == "C01" || p == "PANIC"));
    // C04 judges only what happens when the recovery itself is interrupted (and idempotence);
    // the state of the first-level crash image is C02's subject
    let props: Vec<&str> = if nested { vec!["C02-via-C04"] } else { vec![prop] };
    if history_broken {
        // the fault-free history itself misbehaved: that is C01's business, not a crash result
    } else if let Some(cp) = &scn.post {
        if let Some(seg) = w.segs.get(cp.seg) {
            let cut = match &cp.spec {
                CrashSpec::Process { cut, partial } => *cut + usize::from(partial.is_some()),
                CrashSpec::Power { cut, .. } => *cut,
            };
            let (cands, may_fail) = if power { crash::allowed_states_power(&w, seg, cut, &seg_start_model(&w, cp.seg)) } else { crash::allowed_states(&w, seg, cut, &seg_start_model(&w, cp.seg)) };
            let ne = if nested && cp.nested.is_empty() { Some((&mut r, 3usize)) } else { None };
            let ctx = crash::phase(&seg.log, cut, &scn.ops);
            ev.pending_class = crash::pending_class(&w, seg, cut, &seg_start_model(&w, cp.seg), &scn.ops);
            found.extend(ev.eval(seg, cp, &cands, may_fail, &props, &ctx, ne));
        }
    } else if explore {
        let per_seg = match (tier, nested) {
            (Tier::Quick, false) => 28,
            (Tier::Quick, true) => 10,
            (Tier::Thorough, false) => 400,
            (Tier::Thorough, true) => 60,
        };
        for si in 0..w.segs.len() {
            let seg = &w.segs[si];
            let all = tier == Tier::Thorough && crash::candidate_cuts(&seg.log).len() <= 400;
            let specs = if power {
                let mut v = crash::sample_power(&seg.log, &mut r, per_seg, false);
                // a power loss in which everything written so far happens to survive is a
                // process-crash image: take a share of the stratified process cuts as well
                for c in crash::sample_process(&seg.log, &mut r, per_seg / 3, false, false) {
                    if let CrashSpec::Process { cut, .. } = c {
                        v.push(CrashSpec::Power { cut, drop: vec![], tear: None, dir_keep: usize::MAX });
                    }
                }
                v
            } else {
                crash::sample_process(&seg.log, &mut r, per_seg, all, true)
            };
            let start = seg_start_model(&w, si);
            for spec in specs {
                let cut = match &spec {
                    CrashSpec::Process { cut, partial } => *cut + usize::from(partial.is_some()),
                    CrashSpec::Power { cut, .. } => *cut,
                };
                let (cands, may_fail) = if power { crash::allowed_states_power(&w, seg, cut, &start) } else { crash::allowed_states(&w, seg, cut, &start) };
                if crash::position(&seg.log, cut).0.is_some() {
                    ev.stats.inflight_cuts += 1;
                }
                let cp = CrashPoint { seg: si, spec, nested: vec![] };
                let ne = if nested { Some((&mut r, 3usize)) } else { None };
                let ctx = crash::phase(&seg.log, cut, &scn.ops);
                ev.pending_class = crash::pending_class(&w, seg, cut, &start, &scn.ops);
                if ctx.starts_with("doctor:") || ctx.starts_with("verify:") {
                    // a crash inside doctor is not among the calls the crash properties list
                    continue;
                }
                let vs = ev.eval(seg, &cp, &cands, may_fail, &props, &ctx, ne);
                for (v, c) in vs {
                    if !v.props.iter().any(|p| p == prop) {
                        continue;
                    }
                    // one representative per signature; listed known findings do not stop the search
                    let sg = crate::evidence::signature(prop, &v.oracle, &v.sig);
                    if found.iter().any(|(f, _)| crate::evidence::signature(prop, &f.oracle, &f.sig) == sg) {
                        continue;
                    }
                    if !known.contains(&sg) {
                        unknown += 1;
                    }
                    found.push((v, c));
                }
                // soft per-run deadline (real time): bounds coverage only, never a verdict
                if unknown >= 2 || crate::shim::real_ms() - t0 > soft_ms {
                    break;
                }
            }
            if unknown >= 2 || crate::shim::real_ms() - t0 > soft_ms {
                break;
            }
        }
    }
    let mut res = runner::collect(&mut w, scn, prop, t0);
    res.images = ev.stats.images + ev.stats.nested_images;
    let st = &ev.stats;
    for (k, v) in [
        ("crash_images", st.images),
        ("crash_opens_ok", st.opens_ok),
        ("crash_open_failed_inside_create", st.opens_failed_allowed),
        ("crash_partial_syscall", st.partial_cuts),
        ("crash_inflight_cuts", st.inflight_cuts),
        ("power_images", st.power_images),
        ("power_torn_write", st.torn),
        ("power_dropped_writes", st.dropped_writes),
        ("power_lost_rename", st.lost_rename),
        ("recoveries_recorded", st.recovered_records),
        ("nested_crash_images", st.nested_images),
        ("ms_image_build", st.ms_build),
        ("ms_image_open", st.ms_open),
        ("ms_image_open_plus_compare", st.ms_compare),
    ] {
        res.probes.insert(k.to_string(), v);
    }
    if power {
        for (k, v) in [("power_loss", st.power_images), ("torn_write", st.torn), ("lost_write", st.dropped_writes), ("lost_rename", st.lost_rename)] {
            if v > 0 {
                *res.faults_fired.entry(k.to_string()).or_default() += v;
            }
        }
    } else {
        if st.images > 0 {
            *res.faults_fired.entry("process_crash".into()).or_default() += st.images;
        }
        if st.partial_cuts > 0 {
            *res.faults_fired.entry("partial_syscall".into()).or_default() += st.partial_cuts;
        }
        if st.nested_images > 0 {
            *res.faults_fired.entry("crash_during_recovery".into()).or_default() += st.nested_images;
        }
    }
    let mut hs = st.image_hashes.clone();
    hs.sort();
    hs.dedup();
    res.states.extend(hs);
    res.nontrivial = w.probes.acked_mutations > 0 && st.opens_ok > 0;
    res.violations = found
        .iter()
        .filter(|(v, _)| v.props.iter().any(|p| p == prop))
        .map(|(v, _)| ViolationRec::from(v))
        .collect();
    // the repro scenario carries the crash point of the first violation that is not a listed finding
    let pick = found
        .iter()
        .filter(|(v, _)| v.props.iter().any(|p| p == prop))
        .find(|(v, _)| !known.contains(&crate::evidence::signature(prop, &v.oracle, &v.sig)))
        .or_else(|| found.iter().find(|(v, _)| v.props.iter().any(|p| p == prop)));
    if let Some((_, cp)) = pick {
        let mut s = scn.clone();
        s.post = Some(cp.clone());
        res.repro = Some(s);
    }
    res.inconclusive = history_broken;
    res.sample = Some(serde_json::json!({"history": runner::sample_of(scn, &w), "crash_images": st.images, "nested": st.nested_images, "example_crash": found.first().map(|(_, c)| serde_json::to_value(c).unwrap())}));
    res
}

fn gen_c01(seed: u64, tier: Tier) -> Scenario {
    gen::gen_history(seed, if tier == Tier::Quick { 24 } else { 40 }, true, false)
}
fn gen_crash(seed: u64, tier: Tier) -> Scenario {
    let mut s = gen::gen_history(seed, if tier == Tier::Quick { 10 } else { 18 }, true, true);
    if tier == Tier::Thorough {
        s.knobs.insert("thorough".into(), 1);
    }
    s
}

fn gen_ext(seed: u64, tier: Tier) -> Scenario {
    gen::gen_history(seed, if tier == Tier::Quick { 24 } else { 40 }, true, true)
}
fn docs(tier: Tier) -> usize {
    if tier == Tier::Quick { 40 } else { 200 }
}
fn gen_corpus_plain(seed: u64, tier: Tier) -> Scenario {
    gen::gen_corpus(seed, &gen::CorpusCfg { max_docs: docs(tier), with_vec: false, with_images: false, mutate: false })
}
fn gen_corpus_mut(seed: u64, tier: Tier) -> Scenario {
    gen::gen_corpus(seed, &gen::CorpusCfg { max_docs: docs(tier), with_vec: true, with_images: false, mutate: true })
}
/// C28: as gen_corpus_mut; one seed in three parks the log's write head a few bytes before the end
/// of its region with a record still pending, so that the record the commit's own index flush
/// appends does not fit and the log region grows in the middle of that commit.
fn gen_corpus_steer(seed: u64, tier: Tier) -> Scenario {
    let mut s = gen_corpus_mut(seed, tier);
    let mut r = Rng::new(seed, "corpus-steer");
    if r.chance(1, 3) {
        if let Some(chk) = s.ops.iter().position(|o| matches!(o, Op::Check)) {
            if let Some(c) = s.ops[..chk].iter().rposition(|o| matches!(o, Op::Commit)) {
                let ins = vec![Op::Commit, Op::PutSteer { gap: r.range(24_000, 36_000), seed: r.next() }, Op::Commit, Op::PutSteer { gap: *r.pickv(&[0u64, 8, 40, 48, 60, 200, 400]), seed: r.next() }];
                for (k, o) in ins.into_iter().enumerate() {
                    s.ops.insert(c + k, o);
                }
            }
        }
    }
    s
}
fn gen_corpus_vec(seed: u64, tier: Tier) -> Scenario {
    gen::gen_corpus(seed, &gen::CorpusCfg { max_docs: docs(tier), with_vec: true, with_images: false, mutate: true })
}
fn gen_corpus_img(seed: u64, tier: Tier) -> Scenario {
    // one seed in four builds a larger corpus (sorting and merging code behaves differently above a
    // few dozen entries), with the same small pool of timestamps, i.e. many ties
    let big = seed % 4 == 3;
    gen::gen_corpus(seed, &gen::CorpusCfg { max_docs: if big { docs(tier) * 2 } else { docs(tier) / 2 }, with_vec: false, with_images: true, mutate: true })
}

fn gen_vacuum(seed: u64, tier: Tier) -> Scenario {
    // histories that always contain deletes/updates and at least one vacuum (direct or via doctor)
    let mut s = gen::gen_history(seed, if tier == Tier::Quick { 20 } else { 36 }, false, true);
    let mut r = Rng::new(seed, "vacuum-tail");
    let tail = s.ops.len().saturating_sub(6);
    // (the history is closed at `tail`: its last six operations are open/check/close on a
    // writable and on a read-only handle)
    let mut ins: Vec<Op> = vec![Op::Open];
    // half of the histories are certain to hold embeddings when the compaction runs (same
    // dimension as the history's own embedded puts, if it has any)
    let mut rv = Rng::new(seed, "vacuum-vec");
    if rv.chance(1, 2) {
        let d = s.ops.iter().find_map(|o| if let Op::Put(p) = o { p.emb.as_ref().map(|e| e.len()) } else { None }).unwrap_or(rv.range(2, 8) as usize);
        // a document in front of them that is deleted before the compaction, so that the
        // compaction really moves the later payloads and the index region
        // (with the vector index enabled explicitly the compaction re-encodes it from the decoded
        // index; enabled only implicitly by the puts it keeps the old manifest)
        if rv.chance(2, 3) {
            ins.push(Op::EnableVec);
        }
        let mut pad = PutSpec { pay: Some(Pay::new(PK::Bin, rv.range(300, 5000) as usize, rv.next())), ts: Some(49), ..Default::default() };
        pad.uri = Some("mv2://vec-tail/pad".into());
        ins.push(Op::Put(pad));
        for k in 0..2 {
            let mut p = PutSpec { pay: Some(Pay::new(if k == 0 { PK::Bin } else { PK::Text }, rv.range(30, 700) as usize, rv.next())), ts: Some(50 + k), ..Default::default() };
            p.uri = Some(format!("mv2://vec-tail/{k}"));
            p.emb = Some((0..d).map(|_| rv.f32() * 2.0 - 1.0).collect());
            ins.push(Op::Put(p));
        }
        if rv.chance(1, 2) {
            // a payload-less update of the older of the two: its successor owns bytes that lie
            // before those of a lower-numbered active frame when the compaction walks the table
            ins.push(Op::Commit);
            ins.push(Op::UpdateUri { uri: "mv2://vec-tail/0".into(), spec: PutSpec { title: Some("retitled before vacuum".into()), ..Default::default() } });
        }
        ins.push(Op::Commit);
        ins.push(Op::DeleteUri { uri: "mv2://vec-tail/pad".into() });
    }
    ins.push(Op::Commit);
    if r.chance(1, 2) {
        ins.push(Op::Vacuum);
        ins.push(Op::Check);
        ins.push(Op::Close);
        ins.push(Op::Verify { deep: r.chance(1, 2) });
        ins.push(Op::Open);
        ins.push(Op::Check);
        ins.push(Op::Close);
    } else {
        ins.push(Op::Close);
        ins.push(Op::Doctor(DoctorSpec { time: r.chance(1, 2), lex: r.chance(1, 2), vec: false, vacuum: true, dry_run: false }));
        ins.push(Op::Verify { deep: true });
        ins.push(Op::Open);
        ins.push(Op::Check);
        ins.push(Op::Close);
    }
    for (k, o) in ins.into_iter().enumerate() {
        s.ops.insert(tail + k, o);
    }
    s.ops.push(Op::Verify { deep: true });
    s
}

fn gen_medium(seed: u64, tier: Tier) -> Scenario {
    let mut s = gen::gen_history(seed, if tier == Tier::Quick { 9 } else { 16 }, false, true);
    if tier == Tier::Thorough {
        s.knobs.insert("thorough".into(), 1);
    }
    // One seed in three ends with a payload-less update of a document that is not the newest one
    // (the successor frame then owns bytes that lie before those of lower-numbered frames), so
    // that doctor's compaction and the damaged-file readers meet out-of-order payload offsets.
    let mut r = Rng::new(seed, "medium-tail");
    if r.chance(1, 3) {
        s.ops.push(Op::Open);
        for name in ["a", "b"] {
            let kind = *r.pickv(&[PK::Bin, PK::Text, PK::Compressible]);
            let mut p = PutSpec { pay: Some(Pay::new(kind, r.range(40, 3000) as usize, r.next())), ts: Some(7), ..Default::default() };
            p.uri = Some(format!("mv2://tail/{name}"));
            s.ops.push(Op::Put(p));
        }
        s.ops.push(Op::Commit);
        s.ops.push(Op::UpdateUri { uri: "mv2://tail/a".into(), spec: PutSpec { title: Some("retitled tail".into()), ..Default::default() } });
        s.ops.push(Op::Commit);
        s.ops.push(Op::Check);
        s.ops.push(Op::Close);
    }
    s
}
pub const RULE_MEDIUM: &str = "a seeded history (puts of all payload classes, updates, deletes, commits, vacuum, doctor) produces a committed, closed file; 40 (quick) or 300 (thorough) seeded medium faults per file are then applied at rest, addressed by structure (header fields, WAL, each payload, index region, TOC, footer): single-bit flips, zeroed or garbage-filled ranges and sectors, truncation, a lost earlier write (rebuilt from the syscall log), misdirected copies and splices; each faulted copy is opened read-only and writable, read frame by frame, verified and (C21/C22) given to doctor; a run is non-trivial iff the history acknowledged a mutation and >=1 faulted image was evaluated; distinct = (op-kind buckets, fault kinds, regions hit) classes";
fn medium(id: &'static str, probes: &'static [&'static str]) -> CheckDef {
    CheckDef {
        id,
        level: "fault_enumeration",
        quick_s: 40,
        thorough_s: 900,
        gen: gen_medium,
        run: crate::corrupt::run_corrupt,
        rule: RULE_MEDIUM,
        assumptions: &["faults are sampled by seed, densely per structure; the exhaustive single-byte enumeration the property text mentions is not performed", "the committed content is what a read-only open of the pristine file returns"],
        want_probes: probes,
    }
}

pub const RULE_LOCK: &str = "C01-style histories of a first writer (create/open, puts of all payload classes, updates, deletes, commits, automatic checkpoints, WAL growth, vacuum, downgrade_to_shared, clean and dirty restarts) with a second actor inserted after random steps: a writable Memvid::open of the same path through an independent open file description, Memvid::doctor on the path, or a raw flock(LOCK_EX|LOCK_NB) probe on a fresh descriptor; every attempt made while the first writable handle is alive must fail; if one succeeds both writers commit and the reopened file is checked for a lost commit; a run is non-trivial iff >=1 mutation was acknowledged and >=1 attempt was made while a writable handle was alive and >=1 comparison ran on a reopened handle; distinct = (op-kind buckets, probes) classes";
pub const RULE_RO: &str = "seeded corpora with committed and still-pending (process death) records, followed by one or more read-only sessions (open_read_only, model comparison against the last committed state, searches, timelines, vector queries, verify) under the syscall monitor; the file is hashed when the read-only handle opens and when it is dropped; a run is non-trivial iff >=1 mutation was acknowledged and >=1 comparison ran on a reopened handle; distinct = (op-kind buckets, probes) classes";
pub const RULE_SF: &str = "C01-style histories with vacuum and doctor, one third fault-free and two thirds with injected ENOSPC/EIO/EMFILE/short writes/EINTR (at most 1-3 error-class faults per run), a directory listing after every API return, and a planted forbidden sidecar before an open; a run is non-trivial iff >=1 mutation was acknowledged and >=1 comparison ran on a reopened handle; distinct = (op-kind buckets, fault kinds fired, probes) classes";
pub const RULE_TK: &str = "seeded histories of puts (whole and chunked), tickets (fresh, stale, equal, negative sequence numbers; capacities a few bytes to kilobytes above the current payload end), forged signed tickets on bound and unbound memories, commits, clean and dirty restarts; after every call the payload ends are compared with the granted capacity and rejected calls are monitored for write-class syscalls; non-trivial and distinct as for histories";

pub const RULE_CORPUS: &str = "seeded corpora (1..40 documents in quick, ..200 in thorough: short and chunked texts over a fixed pseudo-word vocabulary with planted query words, random uris/tags/tracks/timestamps/embeddings, instant indexing on or off, commits every n documents, updates and deletes addressed by uri) followed by a query battery (single words, AND/OR/NOT, phrases, field terms, uri/scope, as_of filters, sketch on/off, top_k 1..50, timelines, vector queries) issued while records are pending, after commit, after reopen, on a read-only handle and after a doctor rebuild; a run is non-trivial iff >=1 mutation was acknowledged and >=1 full model comparison ran on a reopened handle; distinct = distinct (op-kind count buckets, probes hit) classes among non-trivial runs";

fn hist(id: &'static str, gen: fn(u64, Tier) -> Scenario, probes: &'static [&'static str]) -> CheckDef {
    CheckDef { id, level: "exploration", quick_s: if id == "C42" { 80 } else { 40 }, thorough_s: 600, gen, run: run_history, rule: RULE_HISTORY, assumptions: &["reference model as in C01"], want_probes: probes }
}
fn corpus(id: &'static str, gen: fn(u64, Tier) -> Scenario, probes: &'static [&'static str]) -> CheckDef {
    CheckDef {
        id,
        level: "exploration",
        quick_s: 40,
        thorough_s: 600,
        gen,
        run: run_history,
        rule: RULE_CORPUS,
        assumptions: &["reference model as in C01", "ground truth for 'which frames contain the word' is re-derived from the real handle's own frame_text_by_id", "reference boolean evaluator with the substring semantics the property states"],
        want_probes: probes,
    }
}

pub const RULE_HISTORY: &str = "seeded random histories (swarm mix of op kinds, payload classes, WAL steering); a run is non-trivial iff >=1 mutation was acknowledged and >=1 full model comparison ran on a reopened handle; distinct = distinct (op-kind count buckets, fault kinds fired, rare-state probes hit) classes among non-trivial runs";
pub const RULE_CRASH: &str = "seeded random histories executed once under the syscall recorder; crash images are derived from the log (quick: stratified sample of cuts per segment incl. partial last syscall; thorough: every cut when the segment has <=400 mutating syscalls), each opened with the real Memvid::open and compared with the reference model; a run is non-trivial iff >=1 mutation was acknowledged and >=1 crash image opened and was compared; distinct = distinct (op-kind buckets, fault kinds, probes) classes among non-trivial runs";

pub fn all() -> Vec<CheckDef> {
    vec![
        CheckDef {
            id: "C01",
            level: "exploration",
            quick_s: 45,
            thorough_s: 600,
            gen: gen_c01,
            run: run_history,
            rule: RULE_HISTORY,
            assumptions: &["reference model of put/update/delete/commit/drop/open semantics (sim/src/model.rs)", "chunk split taken from the library's public preview_chunks"],
            want_probes: &["auto_checkpoint", "replay_on_open", "chunked_puts"],
        },
        CheckDef {
            id: "C02",
            level: "fault_enumeration",
            quick_s: 50,
            thorough_s: 900,
            gen: gen_crash,
            run: run_crash,
            rule: RULE_CRASH,
            assumptions: &["process-crash model: every completed syscall on the memory's directory persists; the syscall at the cut may be applied partially", "reference model as in C01"],
            want_probes: &["crash_images", "crash_inflight_cuts", "crash_partial_syscall"],
        },
        CheckDef {
            id: "C03",
            level: "fault_enumeration",
            quick_s: 50,
            thorough_s: 900,
            gen: gen_crash,
            run: run_crash,
            rule: RULE_CRASH,
            assumptions: &["power-loss model: per inode, content at its last fsync plus an arbitrary subset of later writes (optionally one torn); renames/unlinks durable only after a directory fsync (later ones survive as a prefix); a new file's directory entry is durable once the file was fsynced (weak reading)"],
            want_probes: &["power_images", "power_torn_write", "power_dropped_writes"],
        },
        CheckDef {
            id: "C04",
            level: "fault_enumeration",
            quick_s: 50,
            thorough_s: 900,
            gen: gen_crash,
            run: run_crash,
            rule: RULE_CRASH,
            assumptions: &["process-crash model inside Memvid::open's recovery, nested up to depth 3; the uninterrupted recovery of the same image is the reference"],
            want_probes: &["recoveries_recorded", "nested_crash_images"],
        },
        hist("C06", gen_ext, &["vacuum", "doctor", "chunked_puts", "updates"]),
        hist("C07", gen_ext, &["chunked_puts", "replay_on_open"]),
        corpus("C08", gen_corpus_mut, &["searches_with_hits", "timelines", "deletes", "updates"]),
        corpus("C09", gen_corpus_plain, &["recall_checks"]),
        corpus("C10", gen_corpus_mut, &["searches_with_hits"]),
        corpus("C11", gen_corpus_plain, &["as_of_comparisons"]),
        corpus("C13", gen_corpus_vec, &["vec_searches_checked"]),
        corpus("C14", gen_corpus_vec, &["vec_membership_checks", "vec_searches_checked"]),
        corpus("C15", gen_corpus_img, &["timelines"]),
        corpus("C16", gen_corpus_plain, &["pagination_multi_page"]),
        corpus("C28", gen_corpus_steer, &["differential_compares"]),
        CheckDef { id: "C18", level: "exploration", quick_s: 80, thorough_s: 600, gen: |s, _t| gen::gen_readonly(s), run: run_history, rule: RULE_RO, assumptions: &["write-class syscalls are observed at the process's libc boundary (write/pwrite/ftruncate/rename/unlink/copy_file_range on the memory's directory); mmap is read-only in this code base"], want_probes: &["ro_opens", "ro_byte_snapshots", "abandon", "searches"] },
        CheckDef { id: "C19", level: "exploration", quick_s: 40, thorough_s: 600, gen: |s, t| gen::gen_single_file(s, if t == Tier::Quick { 20 } else { 40 }), run: run_history, rule: RULE_SF, assumptions: &["injected errors are returned at the libc boundary for calls on the memory's directory only", "reads through mmap cannot be faulted"], want_probes: &["dir_listings", "sidecar_refusals", "op_errors"] },
        CheckDef { id: "C24", level: "exploration", quick_s: 40, thorough_s: 600, gen: |s, _t| gen::gen_tickets(s, true), run: run_history, rule: RULE_TK, assumptions: &["capacity is compared with the end offset of frame payloads as reported by the public Frame fields"], want_probes: &["capacity_checks", "tickets_accepted", "rejected_calls_monitored"] },
        CheckDef { id: "C25", level: "exploration", quick_s: 40, thorough_s: 600, gen: |s, _t| gen::gen_tickets(s, false), run: run_history, rule: RULE_TK, assumptions: &["the only authentic signature available offline is the vector pinned in the crate's own signature tests (memory 69601cef-..., seq 9); every other signature is forged"], want_probes: &["tickets_accepted", "stale_tickets_rejected", "forged_tickets_rejected", "rejected_calls_monitored", "authentic_signed_ticket_accepted", "authentic_ticket_for_other_memory_rejected"] },
        CheckDef { id: "C17", level: "exploration", quick_s: 40, thorough_s: 600, gen: |s, t| gen::gen_two_writers(s, if t == Tier::Quick { 20 } else { 40 }), run: run_history, rule: RULE_LOCK, assumptions: &["a second process is simulated by an independent open file description in the same process: flock conflicts between open file descriptions exactly as between processes; process-local state would not, and memvid-core keeps none on this path", "steps of the two actors interleave at API-call granularity", "the lock's retry loop (200 x 50 ms) runs on the virtual clock"], want_probes: &["second_open_refused", "flock_probes", "refused_after_commit", "refused_before_first_commit"] },
        CheckDef {
            id: "C23",
            level: "exploration",
            quick_s: 45,
            thorough_s: 600,
            // one seed in three is a history that is certain to compact (vacuum directly or through
            // doctor) with several live payloads, embeddings and a payload-less update
            gen: |s, t| if s % 3 == 0 { gen_vacuum(s, t) } else { gen::gen_history(s, if t == Tier::Quick { 14 } else { 30 }, false, true) },
            run: crate::determinism::run_determinism,
            rule: "a seeded history with explicit timestamps (puts of all payload classes, updates, deletes, commits, vacuum, doctor, clean restarts) is executed four times, each in a fresh process on a fresh path: base environment; different clock (origin, skew, jumps); different entropy (segment UUIDs, staging-file names, hash seeds); different path plus injected short writes/short reads/EINTR; call outcomes, the logical observation (frames, contents, metadata, timeline, searches, vector search, stats) and the file bytes of each variant are compared with the base run; a run is non-trivial iff >=1 mutation was acknowledged and >=1 variant was compared; distinct = (op-kind buckets, probes) classes",
            assumptions: &["Tantivy's worker threads are real threads that the simulator does not schedule; their entropy is keyed by thread lineage", "differences are classified by the file region they fall in (header fields, WAL ring, payloads, index region, TOC, footer)"],
            want_probes: &["compared_clock", "compared_entropy", "compared_path_short_io"],
        },
        CheckDef {
            id: "C12",
            level: "exploration",
            quick_s: 40,
            thorough_s: 600,
            gen: crate::acl::gen_acl,
            run: run_history,
            rule: "seeded corpora whose documents carry random ACL metadata (absent, valid public/restricted for two tenants, malformed visibility / lists / tenant, JSON-quoted, padded and mixed-case encodings), committed in groups, re-labelled and re-written by updates (metadata inherited unless given anew), followed by retrieval batteries through search, vec_search_with_embedding_acl, search_adaptive_acl and ask with random caller contexts in Enforce and Audit mode, issued while records are pending, after commit, after clean and dirty restarts, on a read-only handle and after doctor; a run is non-trivial iff >=1 mutation was acknowledged and >=1 Enforce answer with hits was judged on a reopened handle; distinct = (op-kind buckets, probes) classes",
            assumptions: &["reference evaluator of the documented policy (sim/src/acl.rs), applied to the metadata the file stores for each returned frame and to the metadata the caller supplied at put time", "this property has no fault or schedule dimension of its own: it is judged over simulator-reached states (pending records, recovery after process death, read-only, doctor)"],
            want_probes: &["acl_enforce_nonempty", "acl_audit_compares", "acl_enforce_without_tenant_rejected", "acl_allowed_refs_checked"],
        },
        CheckDef {
            id: "C26",
            level: "exploration",
            quick_s: 40,
            thorough_s: 600,
            gen: |s, t| crate::cards::gen_cards(s, t, true),
            run: run_history,
            rule: "seeded histories of documents the rules engine extracts memory cards from (values unique to each document), put with and without instant indexing and background-enrichment requests, mixed with ordinary whole and chunked documents, caller-made cards, commits, clean restarts and process death (so that log sequence numbers and frame ids diverge); at every commit, reopen and read-only open each extracted card's source_frame_id must name a frame whose text contains the card's value, and (read-only handle) every enrichment-queue entry must name a document that asked for enrichment; a run is non-trivial iff >=1 mutation was acknowledged and >=1 extracted card or queue entry was judged on a reopened handle; distinct = (op-kind buckets, probes) classes",
            assumptions: &["the text of a frame is what the real handle's frame_text_by_id returns", "the enrichment queue is drained through next_enrichment_task / complete_enrichment_task on a read-only handle, which never reaches the file"],
            want_probes: &["extracted_cards_checked", "queue_entries_checked", "abandon", "chunked_puts"],
        },
        CheckDef {
            id: "C27",
            level: "exploration",
            quick_s: 40,
            thorough_s: 600,
            gen: |s, t| crate::cards::gen_cards(s, t, false),
            run: run_history,
            rule: "seeded histories of put_memory_card(s) with random entities, slots, kinds, event/document dates (ties, missing dates, explicit created_at), version relations incl. retractions, logic-mesh nodes and edges, documents, commits, clean restarts and process death; get_memory_at_time / get_current_memory queries at random times (before, at, between, beyond every card) are compared with a reference (newest non-retracted effective time not after t); at every commit, reopen and read-only open the caller-made card set and the mesh must equal the model's (cards added after the last commit are lost by a process death, everything committed survives); a run is non-trivial iff >=1 mutation was acknowledged and >=1 comparison ran on a reopened handle; distinct = (op-kind buckets, probes) classes",
            assumptions: &["cards and mesh entries are not logged: they become durable at the next commit (explicit, automatic, or on drop); the model loses un-committed ones on process death", "ties in effective time: any of the tied cards is accepted"],
            want_probes: &["cards_put", "card_queries_answered", "card_queries_beyond_latest", "mesh_adds", "abandon"],
        },
        CheckDef {
            id: "C40",
            level: "exploration",
            quick_s: 45,
            thorough_s: 600,
            gen: crate::bulk::gen_bulk,
            run: crate::bulk::run_bulk,
            rule: "a seeded document set (texts around the chunk threshold, binary, compressible, structured and multi-byte payloads, tags, embeddings, explicit timestamps) is ingested twice into fresh files under the same simulated environment: once with plain puts and one commit, once through begin_batch/end_batch with random options (skip_sync, compression level 0..19, disable_auto_checkpoint, pre-sized log) and/or several commit_skip_indexes followed by finalize_indexes; frames, contents, metadata, embeddings, timeline, searches (sketch on and off) and vector searches of both are compared on the live handles and after reopening read-only; a run is non-trivial iff the bulk history acknowledged a mutation and both sides were compared; distinct = (op-kind buckets, probes) classes",
            assumptions: &["physical placement (offsets, stored sizes, payload_bytes) is excluded from the comparison: the batch options change the compression level on purpose", "the durability side of skip_sync (nothing owed before end_batch, everything after) is decided by C03's power-loss images over histories that contain batches"],
            want_probes: &["bulk_compares", "bulk_with_batch_mode", "bulk_several_skip_index_commits", "chunked_puts"],
        },
        CheckDef {
            id: "C29",
            level: "fault_enumeration",
            quick_s: 60,
            thorough_s: 900,
            gen: crate::capsule::gen_capsule,
            run: crate::capsule::run_capsule,
            rule: "a seeded history produces a committed, closed .mv2 file of 70 KiB .. 2.5 MiB (below, above one and above two capsule chunks of 1 MiB); it is locked and unlocked under the recorder (a third of the runs with injected short reads and short writes) and the result compared byte for byte; the unlock's own syscall log is cut at 24 sampled points (process crash) and the output path inspected; 8 (quick) / 30 (thorough) damaged copies of the capsule, addressed by structure (header fields, chunk length prefixes, ciphertext, tags; truncation at and around every chunk boundary; dropped, duplicated and moved chunks), are given to unlock with and without an older file at the output path; half of the runs unlock once more with one injected ENOSPC/EIO; a run is non-trivial iff the clean round trip was exact and >=1 damaged capsule or crash image was judged; distinct = (single/multi chunk, fault kinds) classes",
            assumptions: &["Argon2id at the library's parameters (64 MiB, 3 passes) runs for every lock and unlock; nothing is stubbed", "faults sampled by seed; truncation at a chunk boundary is always among them when the capsule has more than one boundary"],
            want_probes: &["capsule_round_trips_exact", "capsule_damaged_capsules", "capsule_damaged_rejected", "capsule_crash_images", "capsule_plain_over_1MiB"],
        },
        hist("C42", gen_vacuum, &["vacuum", "deletes", "updates"]),
        medium("C20", &["medium_images", "medium_open_accepted", "medium_open_rejected", "fault_in_payload", "fault_in_toc", "fault_in_footer", "fault_in_wal", "fault_in_indexes"]),
        medium("C21", &["medium_images", "medium_doctor_ran"]),
        medium("C22", &["medium_images", "medium_open_accepted", "medium_open_rejected"]),
        medium("C31", &["medium_images", "medium_footer_found", "medium_footer_absent"]),
        CheckDef {
            id: "C05",
            level: "exploration",
            quick_s: 30,
            thorough_s: 300,
            gen: crate::walsim::gen_c05,
            run: crate::walsim::run_c05,
            rule: "seeded short histories of append/checkpoint/stats/scan/reopen/read-only-view/power-loss-reopen on the real EmbeddedWal over regions of 96..4096 bytes and 64 KiB, with payload sizes steered so that the write head stops within 48 bytes of the region end, exactly at the end, or exactly fills the ring; each process batches several hundred such runs; a run is non-trivial iff it acknowledged an append and then checkpointed or reopened; distinct = distinct (region bucket, counts of appends/rejections/checkpoints/reopens, head-near-end, head-at-end, wraps) classes",
            assumptions: &["vector-of-records model; the caller persists the header at every checkpoint (as Memvid does)", "the property's own text asks for exhaustive exploration of small regions: this check samples (deterministic simulation), it does not enumerate"],
            want_probes: &["wal_head_within_48_of_end", "wal_head_exactly_at_end", "wal_wraps", "wal_appends_rejected_full", "wal_dirty_reopens"],
        },
    ]
}

pub fn find(id: &str) -> Option<CheckDef> {
    all().into_iter().find(|c| c.id == id)
}

/// Number of seeds a quick run covers (chosen so that an idle 16-core machine needs roughly the
/// check's nominal quick budget).
pub fn quick_runs(id: &str) -> u64 {
    match id {
        "C01" => 400,
        "C02" => 100,
        "C03" => 90,
        "C04" => 64,
        "C05" => 320,
        "C06" | "C07" => 240,
        "C08" | "C10" | "C28" => 130,
        "C09" | "C11" | "C13" | "C14" | "C16" => 140,
        "C15" => 120,
        "C17" => 160,
        "C18" => 260,
        "C19" => 300,
        "C20" => 48,
        "C21" => 48,
        "C22" => 40,
        "C23" => 48,
        "C24" => 340,
        "C25" => 400,
        "C31" => 160,
        "C12" => 90,
        "C26" | "C27" => 160,
        "C40" => 120,
        "C29" => 40,
        "C42" => 260,
        _ => 100,
    }
}
