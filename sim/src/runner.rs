//! One simulated world per process: run a scenario for a property, produce a result record.
use crate::ops::*;
use crate::shim;
use crate::world::{Violation, World};
use serde::{Deserialize, Serialize};
use std::collections::BTreeMap;

#[derive(Serialize, Deserialize, Clone, Debug, Default)]
pub struct RunResult {
    pub seed: u64,
    pub prop: String,
    pub violations: Vec<ViolationRec>,
    pub inconclusive: bool,
    pub nontrivial: bool,
    /// scenario class: op-kind bucket + faults fired + probes hit
    pub class: String,
    pub n_ops: usize,
    pub probes: BTreeMap<String, u64>,
    pub faults_fired: BTreeMap<String, u64>,
    pub sim_seconds: f64,
    pub tracked_syscalls: u64,
    pub images: u64,
    pub states: Vec<String>,
    pub wall_ms: u64,
    pub sample: Option<serde_json::Value>,
    /// explicit scenario reproducing the first violation (with explicit post step)
    pub repro: Option<Scenario>,
    pub log_digest: String,
    pub harness_error: Option<String>,
    /// simulated runs inside this process when it batches many small ones (0 = one)
    #[serde(default)]
    pub evals: u64,
    /// additional non-trivial classes reached by a batching process
    #[serde(default)]
    pub classes: Vec<String>,
}

#[derive(Serialize, Deserialize, Clone, Debug)]
pub struct ViolationRec {
    pub props: Vec<String>,
    pub oracle: String,
    #[serde(default)]
    pub sig: String,
    pub msg: String,
    pub op: usize,
}

impl From<&Violation> for ViolationRec {
    fn from(v: &Violation) -> Self {
        ViolationRec { props: v.props.clone(), oracle: v.oracle.clone(), sig: v.sig.clone(), msg: v.msg.clone(), op: v.op }
    }
}

pub fn scratch_root() -> String {
    let base = std::env::var("MEMSIM_SCRATCH").unwrap_or_else(|_| "/dev/shm".to_string());
    format!("{base}/memsim.{}", std::process::id())
}

pub fn fault_name(f: &shim::FiredFault) -> String {
    match f.action {
        shim::FaultAction::Short(_) => format!("short_{:?}", f.class).to_lowercase(),
        shim::FaultAction::Errno(e) => {
            let n = match e {
                libc::EINTR => "eintr",
                libc::ENOSPC => "enospc",
                libc::EIO => "eio",
                libc::EMFILE => "emfile",
                _ => "errno",
            };
            format!("{n}_{:?}", f.class).to_lowercase()
        }
    }
}

pub fn probes_map(w: &World) -> BTreeMap<String, u64> {
    let v = serde_json::to_value(&w.probes).unwrap();
    let mut m = BTreeMap::new();
    if let serde_json::Value::Object(o) = v {
        for (k, x) in o {
            m.insert(k, x.as_u64().unwrap_or(0));
        }
    }
    for (k, x) in &w.extra_probes {
        *m.entry(k.clone()).or_default() += *x;
    }
    m
}

pub fn class_of(ops: &[Op], faults: &BTreeMap<String, u64>, probes: &BTreeMap<String, u64>) -> String {
    let mut kinds: BTreeMap<&str, usize> = BTreeMap::new();
    for o in ops {
        *kinds.entry(o.kind_name()).or_default() += 1;
    }
    let bucket = |n: usize| match n {
        0 => "0",
        1 => "1",
        2..=3 => "2-3",
        4..=7 => "4-7",
        _ => "8+",
    };
    let k: Vec<String> = kinds.iter().map(|(k, n)| format!("{k}:{}", bucket(*n))).collect();
    let f: Vec<String> = faults.keys().cloned().collect();
    let p: Vec<String> = probes
        .iter()
        .filter(|(k, v)| **v > 0 && matches!(k.as_str(), "auto_checkpoint" | "wal_grew" | "head_near_end" | "replay_on_open" | "chunked_puts" | "updates" | "deletes" | "abandon" | "vacuum" | "doctor" | "ro_opens"))
        .map(|(k, _)| k.clone())
        .collect();
    format!("{}|{}|{}", k.join(","), f.join(","), p.join(","))
}

pub fn setup_env(scn: &Scenario) {
    if std::env::var("MEMSIM_PLAIN").is_ok() {
        return;
    }
    shim::reset_thread_lineage(0x11EA6E ^ scn.env.env_seed);
    shim::env_start(scn.env.env_seed, scn.env.real_base_s, scn.env.jumpy_pm);
    shim::set_sim_thread(true);
}

pub fn collect(w: &mut World, scn: &Scenario, prop: &str, t0: u64) -> RunResult {
    w.finish_segment();
    let mut faults: BTreeMap<String, u64> = BTreeMap::new();
    let mut tracked = 0u64;
    let mut hs = blake3::Hasher::new();
    for s in &w.segs {
        for f in &s.fired {
            *faults.entry(fault_name(f)).or_default() += 1;
        }
        tracked += s.counts.iter().sum::<u64>();
        let (_a, b) = crate::disk::log_digest(&s.log);
        hs.update(b.as_bytes());
    }
    let probes = probes_map(w);
    let class = class_of(&scn.ops, &faults, &probes);
    let violations: Vec<ViolationRec> = w.violations.iter().filter(|v| v.props.iter().any(|p| p == prop)).map(ViolationRec::from).collect();
    let mut nontrivial = w.probes.acked_mutations > 0 && w.probes.compares_after_reopen > 0;
    if prop == "C17" {
        let attempts: u64 = ["second_open_refused", "second_doctor_refused", "flock_probes"].iter().map(|k| probes.get(*k).copied().unwrap_or(0)).sum();
        nontrivial = nontrivial && (attempts > 0 || !violations.is_empty());
    }
    let mut states: Vec<String> = w.snaps.iter().map(|m| m.digest()).collect();
    states.sort();
    states.dedup();
    RunResult {
        seed: scn.seed,
        prop: prop.to_string(),
        inconclusive: w.model.unpredictable && violations.is_empty(),
        nontrivial,
        class,
        n_ops: scn.ops.len(),
        probes,
        faults_fired: faults,
        sim_seconds: shim::simulated_seconds(),
        tracked_syscalls: tracked,
        images: 0,
        states,
        wall_ms: shim::real_ms() - t0,
        sample: None,
        repro: if violations.is_empty() { None } else { Some(scn.clone()) },
        violations,
        log_digest: hs.finalize().to_hex()[..16].to_string(),
        harness_error: None,
        evals: 0,
        classes: Vec::new(),
    }
}

pub fn sample_of(scn: &Scenario, w: &World) -> serde_json::Value {
    let ops: Vec<String> = scn
        .ops
        .iter()
        .zip(w.recs.iter())
        .map(|(o, r)| {
            let d = match o {
                Op::Put(s) => s.pay.as_ref().map(|p| format!("{:?}/{}B{}", p.kind, p.len, if s.emb.is_some() { "+emb" } else { "" })).unwrap_or_default(),
                Op::Update { target, spec } => format!("#{target}{}", spec.pay.as_ref().map(|p| format!(" {:?}/{}B", p.kind, p.len)).unwrap_or_default()),
                Op::Delete { target } => format!("#{target}"),
                _ => String::new(),
            };
            format!("{}({}){}", o.kind_name(), d, if r.skipped { "=skip" } else if r.ok { "" } else { "=err" })
        })
        .collect();
    serde_json::json!({"seed": scn.seed, "ops": ops, "violations": w.violations.len()})
}
