//! C40: bulk-ingestion paths (batch mode; skip-index commits + finalize) against plain puts + commit.
//! One scenario holds the bulk history; the plain history is derived from it by dropping the batch
//! calls and turning the index finalisation into an ordinary commit. Both run on fresh files in the
//! same simulated environment and their logical observations are compared, live and after reopen.
use crate::ops::*;
use crate::rng::Rng;
use crate::runner::{self, RunResult, ViolationRec};
use crate::shim;
use crate::world::{World, FILE};
use memvid_core::Memvid;

/// What a caller can observe, without physical placement (offsets and stored sizes depend on the
/// compression level, which the batch options change on purpose).
pub fn logical(mem: &mut Memvid) -> Vec<String> {
    let mut v = crate::crash::observe(mem);
    let n = mem.frame_count() as u64;
    for id in 0..n {
        if let Ok(f) = mem.frame_by_id(id) {
            v.push(format!("meta {id}|{:?}|{:?}|{:?}|{:?}|{:?}|{:?}|{:?}", f.title, f.kind, f.track, f.tags, f.labels, f.chunk_index, f.chunk_count));
            if let Ok(Some(e)) = mem.frame_embedding(id) {
                v.push(format!("emb {id} {}", blake3::hash(&e.iter().flat_map(|x| x.to_le_bytes()).collect::<Vec<u8>>()).to_hex()[..12].to_string()));
            }
        }
    }
    match mem.timeline(memvid_core::TimelineQuery::default()) {
        Ok(t) => v.push(format!("timeline {:?}", t.iter().map(|e| (e.timestamp, e.frame_id)).collect::<Vec<_>>())),
        Err(e) => v.push(format!("timeline ERR {e}")),
    }
    for w in crate::gen::PLANT.iter().chain(VOCAB.iter().take(4)) {
        for no_sketch in [false, true] {
            let rq = memvid_core::SearchRequest { query: w.to_string(), top_k: 25, snippet_chars: 80, uri: None, scope: None, cursor: None, as_of_frame: None, as_of_ts: None, no_sketch, acl_context: None, acl_enforcement_mode: Default::default() };
            match mem.search(rq) {
                Ok(r) => v.push(format!("search {w} sketch={} total={} {:?}", !no_sketch, r.total_hits, r.hits.iter().map(|h| (h.frame_id, h.range)).collect::<Vec<_>>())),
                Err(e) => v.push(format!("search {w} ERR {}", format!("{e}").chars().take(60).collect::<String>())),
            }
        }
    }
    if let Ok(st) = mem.stats() {
        v.push(format!("stats frames={} active={} vectors={} has_lex={} has_vec={}", st.frame_count, st.active_frame_count, st.vector_count, st.has_lex_index, st.has_vec_index));
        if st.vector_count > 0 {
            for id in 0..n {
                if let Ok(Some(e)) = mem.frame_embedding(id) {
                    for q in [vec![0.25f32; e.len()], e.clone()] {
                        match mem.search_vec(&q, 10) {
                            Ok(h) => v.push(format!("vec {:?}", h.iter().map(|x| (x.frame_id, x.distance.to_bits())).collect::<Vec<_>>())),
                            Err(e) => v.push(format!("vec ERR {e}")),
                        }
                    }
                    break;
                }
            }
        }
    }
    v
}

/// The plain history that ingests the same documents: no batch calls, no skip-index commits, one
/// ordinary commit where the bulk history finalises its indexes.
pub fn plain_ops(ops: &[Op]) -> Vec<Op> {
    let mut out = Vec::new();
    for o in ops {
        match o {
            Op::BeginBatch(_) | Op::EndBatch | Op::CommitSkipIndexes => {}
            Op::FinalizeIndexes => out.push(Op::Commit),
            x => out.push(x.clone()),
        }
    }
    out
}

struct Side {
    ok: bool,
    note: String,
    live: Vec<String>,
    reopened: Vec<String>,
    results: Vec<String>,
}

fn run_side(root: &str, name: &str, scn: &Scenario, ops: &[Op], res: &mut RunResult) -> Side {
    let dir = format!("{root}/{name}");
    std::fs::create_dir_all(&dir).unwrap();
    let mut s2 = scn.clone();
    s2.ops = ops.to_vec();
    let mut w = World::new(&dir, &s2);
    w.run(ops);
    let mut side = Side { ok: false, note: String::new(), live: vec![], reopened: vec![], results: vec![] };
    side.results = w.recs.iter().filter(|r| matches!(r.kind, "put" | "update" | "delete")).map(|r| format!("{}:{}", r.kind, if r.ok { "ok" } else { "err" })).collect();
    if let Some(v) = w.violations.iter().find(|v| v.props.iter().any(|p| p == "C01" || p == "PANIC")) {
        side.note = format!("{}: {}", v.oracle, v.msg.chars().take(240).collect::<String>());
    }
    if let Some(m) = w.mem.as_mut() {
        side.live = logical(m);
    }
    if w.mem.is_some() {
        w.run_op(ops.len(), &Op::Close);
    }
    w.finish_segment();
    for (k, v) in runner::probes_map(&w) {
        *res.probes.entry(k).or_default() += v;
    }
    res.sim_seconds += shim::simulated_seconds();
    for sg in &w.segs {
        res.tracked_syscalls += sg.counts.iter().sum::<u64>();
    }
    if !w.model.exists || w.model.unpredictable || !side.note.is_empty() {
        return side;
    }
    match Memvid::open_read_only(format!("{}/{FILE}", w.dir)) {
        Ok(mut m) => {
            side.reopened = logical(&mut m);
            side.ok = true;
        }
        Err(e) => side.note = format!("reopen failed: {e}"),
    }
    if name == "bulk" {
        res.class = runner::class_of(ops, &Default::default(), &res.probes);
        res.nontrivial = w.probes.acked_mutations > 0;
    }
    side
}

pub fn run_bulk(scn: &Scenario, prop: &str, _explore: bool) -> RunResult {
    let t0 = shim::real_ms();
    runner::setup_env(scn);
    let root = runner::scratch_root();
    std::fs::create_dir_all(&root).unwrap();
    let mut res = RunResult { seed: scn.seed, prop: prop.to_string(), n_ops: scn.ops.len(), ..Default::default() };
    let plain = plain_ops(&scn.ops);
    let a = run_side(&root, "plain", scn, &plain, &mut res);
    // same environment for the second side
    runner::setup_env(scn);
    let b = run_side(&root, "bulk", scn, &scn.ops, &mut res);
    res.evals = 1;
    let mut viol = |oracle: &str, sig: &str, msg: String| res.violations.push(ViolationRec { props: vec!["C40".into()], oracle: oracle.into(), sig: sig.into(), msg, op: 0 });
    if !a.ok {
        // the plain history itself misbehaved: not this property's business
        res.inconclusive = true;
    } else if !b.ok {
        viol("bulk-history-runs", "", format!("the plain history ran cleanly; the bulk history did not: {}", b.note));
    } else {
        let cmp = |x: &Vec<String>, y: &Vec<String>| -> Option<(usize, String, String)> {
            if x == y {
                return None;
            }
            let d = x.iter().zip(y.iter()).position(|(p, q)| p != q).unwrap_or(x.len().min(y.len()));
            Some((d, x.get(d).cloned().unwrap_or_default().chars().take(220).collect(), y.get(d).cloned().unwrap_or_default().chars().take(220).collect()))
        };
        let what = |line: &str| -> String {
            let w = line.split(' ').next().unwrap_or("");
            if w.chars().next().is_some_and(|c| c.is_ascii_digit()) { "frames".into() } else { w.to_string() }
        };
        if a.results != b.results {
            viol("same-call-outcomes", "", format!("mutating calls ended differently: plain {:?} vs bulk {:?}", a.results, b.results));
        }
        let finalized = scn.ops.iter().rposition(|o| matches!(o, Op::FinalizeIndexes | Op::Commit)).is_some_and(|p| !scn.ops[p + 1..].iter().any(|o| matches!(o, Op::CommitSkipIndexes)));
        // the live comparison only makes sense when both sides committed everything at the end
        // signature class: do the two sides differ only in searches that ran with the sketch
        // pre-filter on (a listed finding), or in something else as well?
        let class = |x: &Vec<String>, y: &Vec<String>, first: &str| -> String {
            let only_sketch = x.len() == y.len() && x.iter().zip(y.iter()).filter(|(p, q)| p != q).all(|(p, _)| p.starts_with("search ") && p.contains(" sketch=true "));
            if only_sketch { "search-with-sketch-prefilter-only".to_string() } else { what(first) }
        };
        if let Some((d, x, y)) = cmp(&a.live, &b.live) {
            if finalized {
                let c = class(&a.live, &b.live, &x);
                viol("live-observation-equal", &c, format!("live handles differ at line {d}: plain {x:?} vs bulk {y:?}"));
            }
        }
        if let Some((d, x, y)) = cmp(&a.reopened, &b.reopened) {
            if finalized {
                let c = class(&a.reopened, &b.reopened, &x);
                viol("reopened-observation-equal", &c, format!("after reopen the memories differ at line {d}: plain {x:?} vs bulk {y:?}"));
            }
        }
        *res.probes.entry("bulk_compares".into()).or_default() += 1;
        if scn.ops.iter().any(|o| matches!(o, Op::BeginBatch(_))) {
            *res.probes.entry("bulk_with_batch_mode".into()).or_default() += 1;
        }
        if scn.ops.iter().filter(|o| matches!(o, Op::CommitSkipIndexes)).count() > 1 {
            *res.probes.entry("bulk_several_skip_index_commits".into()).or_default() += 1;
        }
    }
    if !res.violations.is_empty() {
        res.repro = Some(scn.clone());
    }
    res.states = vec![blake3::hash(a.reopened.join("\n").as_bytes()).to_hex()[..12].to_string()];
    res.sample = Some(serde_json::json!({"seed": scn.seed, "bulk_ops": scn.ops.iter().map(|o| o.kind_name()).collect::<Vec<_>>(), "plain_ops": plain.iter().map(|o| o.kind_name()).collect::<Vec<_>>()}));
    res.log_digest = blake3::hash(b.reopened.join("\n").as_bytes()).to_hex()[..16].to_string();
    res.wall_ms = shim::real_ms() - t0;
    let _ = std::fs::remove_dir_all(&root);
    res
}

pub fn gen_bulk(seed: u64, tier: crate::checks::Tier) -> Scenario {
    let mut r = Rng::new(seed, "bulk");
    let env = crate::gen::env_for(seed, &mut r);
    let mut ops = vec![Op::Create];
    let n_docs = 2 + r.below(if tier == crate::checks::Tier::Quick { 30 } else { 120 }) as usize;
    let dim = r.range(2, 12) as usize;
    let vec_on = r.chance(1, 2);
    let mode = r.below(3); // 0 batch, 1 skip-index commits, 2 both
    let batch = mode != 1;
    let skip = mode != 0;
    if batch {
        ops.push(Op::BeginBatch(BatchSpec { compression_level: *r.pickv(&[0i32, 1, 3, 9, 19]), disable_auto_checkpoint: r.chance(1, 2), skip_sync: r.chance(2, 3), wal_pre_size: *r.pickv(&[0u64, 0, 70_000, 200_000, 1_000_000]) }));
    }
    let every = r.range(2, 12);
    for d in 0..n_docs {
        let kind = *r.pickv(&[PK::Text, PK::Text, PK::Text, PK::LongText, PK::Bin, PK::Compressible, PK::Unicode, PK::Structured]);
        let len = match kind {
            PK::LongText => r.range(2400, 7000),
            PK::Bin | PK::Compressible => *r.pickv(&[20u64, 900, 9000, 40_000]),
            _ => r.range(20, 1800),
        } as usize;
        let mut pay = Pay::new(kind, len, r.next());
        for p in crate::gen::PLANT {
            if r.chance(1, 4) {
                pay.plant.push(p.to_string());
            }
        }
        let mut spec = PutSpec { pay: Some(pay), ts: Some(r.range(0, 100_000) as i64 - 50_000), ..Default::default() };
        spec.uri = Some(format!("mv2://bulk/{d}"));
        if r.chance(1, 3) {
            spec.tags = vec![r.pick(&["red", "blue"]).to_string()];
        }
        if vec_on && kind == PK::Text && r.chance(2, 3) {
            spec.emb = Some((0..dim).map(|_| r.f32() * 2.0 - 1.0).collect());
        }
        ops.push(Op::Put(spec));
        if skip && (d as u64 + 1) % every == 0 {
            ops.push(Op::CommitSkipIndexes);
        }
    }
    if batch {
        ops.push(Op::EndBatch);
    }
    if skip {
        if r.chance(1, 2) {
            ops.push(Op::CommitSkipIndexes);
        }
        ops.push(Op::FinalizeIndexes);
    } else {
        ops.push(Op::Commit);
    }
    Scenario { seed, env, ops, fault: Default::default(), fault_ops: vec![], post: None, medium: None, knobs: Default::default() }
}
