//! C23: the same explicit calls, executed under different environments (clock, entropy and hash
//! seeds, path, short writes), must give byte-identical files and at least identical logical state.
//! Each variant runs in its own forked process, so that process-wide state (the standard
//! library's per-thread hash keys, Tantivy's pools) starts fresh for every execution.
use crate::corrupt;
use crate::ops::*;
use crate::runner::{self, RunResult, ViolationRec};
use crate::shim;
use crate::world::{World, FILE};
use memvid_core::Memvid;
use serde::{Deserialize, Serialize};
use std::collections::BTreeMap;

#[derive(Serialize, Deserialize, Clone, Debug, Default)]
struct VariantOut {
    ok: bool,
    note: String,
    logical: Vec<String>,
    frames: Vec<(u64, u64)>,
    history_violations: usize,
    op_results: Vec<String>,
    probes: BTreeMap<String, u64>,
    faults: BTreeMap<String, u64>,
    sim_seconds: f64,
    tracked: u64,
    class: String,
    acked: u64,
    clock_reads: u64,
    entropy_draws: u64,
}

pub const VARIANTS: &[&str] = &["base", "clock", "entropy", "path+short-io"];

fn logical_observation(path: &str) -> Result<(Vec<String>, Vec<(u64, u64)>), String> {
    let mut mem = Memvid::open_read_only(path).map_err(|e| format!("open_read_only: {e}"))?;
    let mut v = crate::crash::observe(&mut mem);
    let n = mem.frame_count() as u64;
    let frames: Vec<(u64, u64)> = (0..n).filter_map(|id| mem.frame_by_id(id).ok()).map(|f| (f.payload_offset, f.payload_length)).collect();
    for id in 0..n {
        if let Ok(f) = mem.frame_by_id(id) {
            v.push(format!("meta {id}|{:?}|{:?}|{:?}|{:?}|{:?}|{:?}", f.title, f.kind, f.track, f.tags, f.labels, f.content_dates));
        }
    }
    match mem.timeline(memvid_core::TimelineQuery::default()) {
        Ok(t) => v.push(format!("timeline {:?}", t.iter().map(|e| (e.timestamp, e.frame_id)).collect::<Vec<_>>())),
        Err(e) => v.push(format!("timeline ERR {e}")),
    }
    for w in crate::gen::PLANT.iter().chain(VOCAB.iter().take(6)) {
        let rq = memvid_core::SearchRequest { query: w.to_string(), top_k: 20, snippet_chars: 80, uri: None, scope: None, cursor: None, as_of_frame: None, as_of_ts: None, no_sketch: false, acl_context: None, acl_enforcement_mode: Default::default() };
        match mem.search(rq) {
            Ok(r) => v.push(format!("search {w} total={} {:?}", r.total_hits, r.hits.iter().map(|h| (h.frame_id, h.range)).collect::<Vec<_>>())),
            Err(e) => v.push(format!("search {w} ERR {}", format!("{e}").chars().take(60).collect::<String>())),
        }
    }
    if let Ok(st) = mem.stats() {
        v.push(format!("stats frames={} active={} payload_bytes={} vectors={} has_lex={} has_vec={}", st.frame_count, st.active_frame_count, st.payload_bytes, st.vector_count, st.has_lex_index, st.has_vec_index));
        if st.vector_count > 0 {
            for id in 0..n {
                if let Ok(Some(e)) = mem.frame_embedding(id) {
                    let q = vec![0.25f32; e.len()];
                    match mem.search_vec(&q, 10) {
                        Ok(h) => v.push(format!("vec {:?}", h.iter().map(|x| (x.frame_id, x.distance.to_bits())).collect::<Vec<_>>())),
                        Err(e) => v.push(format!("vec ERR {e}")),
                    }
                    break;
                }
            }
        }
    }
    Ok((v, frames))
}

/// Run one variant in this (forked) process; writes `{root}/v{k}.json` and `{root}/v{k}.bin`.
fn run_variant(scn: &Scenario, k: usize, root: &str) -> VariantOut {
    let mut out = VariantOut::default();
    let e = &scn.env;
    let mut s2 = scn.clone();
    match VARIANTS[k] {
        "base" => shim::env_start_split(e.env_seed, e.env_seed, e.real_base_s, e.jumpy_pm),
        "clock" => shim::env_start_split(e.env_seed, e.env_seed ^ 0xC10C_0001, e.real_base_s + 86_400 * 400 + 12_345, 25),
        "entropy" => shim::env_start_split(e.env_seed ^ 0xE47_0002, e.env_seed, e.real_base_s, e.jumpy_pm),
        _ => {
            shim::env_start_split(e.env_seed, e.env_seed, e.real_base_s, e.jumpy_pm);
            s2.fault.short_write_pm = 150;
            s2.fault.short_read_pm = 100;
            // EINTR is not injected here: an interrupted call that surfaces as an error is a
            // failed call, which the statement ("the same calls ... produce") does not cover
        }
    }
    shim::reset_thread_lineage(0x11EA6E ^ if VARIANTS[k] == "entropy" { e.env_seed ^ 0xE47_0002 } else { e.env_seed });
    // The history runs on a fresh thread created *after* the variant's entropy is in place: std
    // caches a thread's hash-map keys the first time a RandomState is made, and the forking thread
    // made one long ago; the new thread's lineage derives from this variant's lineage, so its keys
    // (and everything else it draws) differ between the `base` and `entropy` environments.
    let root2 = root.to_string();
    let scn_env = scn.clone();
    std::thread::Builder::new()
        .stack_size(256 << 20)
        .spawn(move || run_variant_body(&scn_env, s2, k, &root2, out))
        .ok()
        .and_then(|h| h.join().ok())
        .unwrap_or_default()
}

fn run_variant_body(scn: &Scenario, s2: Scenario, k: usize, root: &str, mut out: VariantOut) -> VariantOut {
    let e = &scn.env;
    let _ = e;
    shim::set_sim_thread(true);
    let wroot = if VARIANTS[k] == "path+short-io" { format!("{root}/another-much-longer-directory-name-{k}") } else { format!("{root}/v{k}") };
    std::fs::create_dir_all(&wroot).unwrap();
    let mut w = World::new(&wroot, &s2);
    w.run(&s2.ops);
    if w.mem.is_some() {
        w.run_op(s2.ops.len(), &Op::Close);
    }
    if std::env::var("MEMSIM_HASHDBG").is_ok() {
        let m: std::collections::HashMap<u64, u8> = (0..8).map(|i| (i, 0)).collect();
        eprintln!("HASHDBG variant {k} order {:?}", m.keys().collect::<Vec<_>>());
    }
    w.finish_segment();
    out.clock_reads = shim::clock_reads();
    out.entropy_draws = shim::entropy_draws();
    out.sim_seconds = shim::simulated_seconds();
    shim::env_stop();
    shim::set_sim_thread(false);
    out.history_violations = w.violations.iter().filter(|v| v.props.iter().any(|p| p == "C01" || p == "PANIC")).count();
    if let Some(v) = w.violations.iter().find(|v| v.props.iter().any(|p| p == "C01" || p == "PANIC")) {
        out.note = format!("{}: {}", v.oracle, v.msg.chars().take(300).collect::<String>());
    }
    out.op_results = w.recs.iter().map(|r| format!("{}:{}", r.kind, if r.skipped { "skip" } else if r.ok { "ok" } else { "err" })).collect();
    out.probes = runner::probes_map(&w);
    out.acked = w.probes.acked_mutations;
    for sg in &w.segs {
        for f in &sg.fired {
            *out.faults.entry(runner::fault_name(f)).or_default() += 1;
        }
        out.tracked += sg.counts.iter().sum::<u64>();
    }
    out.class = runner::class_of(&s2.ops, &BTreeMap::new(), &out.probes);
    if !w.model.exists || w.model.unpredictable {
        out.note = "history outside the model".into();
        return out;
    }
    let bytes = match std::fs::read(&w.path) {
        Ok(b) => b,
        Err(e) => {
            out.note = format!("file unreadable: {e}");
            return out;
        }
    };
    let obs_dir = format!("{root}/obs{k}");
    std::fs::create_dir_all(&obs_dir).unwrap();
    let obs_path = format!("{obs_dir}/{FILE}");
    std::fs::write(&obs_path, &bytes).unwrap();
    match logical_observation(&obs_path) {
        Ok((l, f)) => {
            out.logical = l;
            out.frames = f;
            out.ok = true;
        }
        Err(e) => out.note = e,
    }
    let _ = std::fs::write(format!("{root}/v{k}.bin"), &bytes);
    out
}

fn fork_variant(scn: &Scenario, k: usize, root: &str) -> Option<VariantOut> {
    let out_path = format!("{root}/v{k}.json");
    let pid = unsafe { libc::fork() };
    if pid == 0 {
        let r = std::panic::catch_unwind(std::panic::AssertUnwindSafe(|| run_variant(scn, k, root)));
        shim::stop();
        shim::env_stop();
        if let Ok(o) = r {
            let _ = std::fs::write(&out_path, serde_json::to_vec(&o).unwrap());
        }
        unsafe { libc::_exit(0) };
    }
    let mut st = 0;
    unsafe { libc::waitpid(pid, &mut st, 0) };
    std::fs::read(&out_path).ok().and_then(|b| serde_json::from_slice(&b).ok())
}

/// Names of the regions (as `corrupt::regions` lays them out over file `a`) whose bytes differ.
fn differing_regions(a: &[u8], b: &[u8], frames: &[(u64, u64)]) -> Vec<String> {
    let mut out: Vec<String> = Vec::new();
    if a.len() != b.len() {
        out.push("file-size".into());
    }
    let n = a.len().min(b.len());
    // corrupt::regions needs a World only nominally
    let regs = corrupt::regions_of(a, frames);
    for r in regs {
        if matches!(r.name, "footer.hash" | "footer.toc_len") {
            continue;
        }
        let s = (r.off as usize).min(n);
        let e = ((r.off + r.len) as usize).min(n);
        if a[s..e] != b[s..e] && !out.contains(&r.name.to_string()) {
            out.push(r.name.to_string());
        }
    }
    out
}

pub fn run_determinism(scn: &Scenario, prop: &str, _explore: bool) -> RunResult {
    let t0 = shim::real_ms();
    let root = runner::scratch_root();
    std::fs::create_dir_all(&root).unwrap();
    let mut res = RunResult { seed: scn.seed, prop: prop.to_string(), n_ops: scn.ops.len(), ..Default::default() };
    let which: Vec<usize> = match scn.knobs.get("variant") {
        Some(v) => vec![0, *v as usize],
        None => (0..VARIANTS.len()).collect(),
    };
    let mut outs: BTreeMap<usize, VariantOut> = BTreeMap::new();
    for k in &which {
        match fork_variant(scn, *k, &root) {
            Some(o) => {
                outs.insert(*k, o);
            }
            None => {
                res.harness_error = Some(format!("variant {} died", VARIANTS[*k]));
                return res;
            }
        }
    }
    let base = outs.get(&0).cloned().unwrap_or_default();
    res.class = base.class.clone();
    res.probes = base.probes.clone();
    res.sim_seconds = outs.values().map(|o| o.sim_seconds).sum();
    res.tracked_syscalls = outs.values().map(|o| o.tracked).sum();
    for o in outs.values() {
        for (k, v) in &o.faults {
            *res.faults_fired.entry(k.clone()).or_default() += *v;
        }
    }
    res.evals = 1;
    // A history that disagrees with the reference model in the base environment (another
    // property's business) can still be compared with itself under the other environments.
    if !base.ok {
        res.inconclusive = true;
        res.wall_ms = shim::real_ms() - t0;
        return res;
    }
    let a = std::fs::read(format!("{root}/v0.bin")).unwrap_or_default();
    let has_delete = scn.ops.iter().any(|o| matches!(o, Op::Delete { .. } | Op::DeleteUri { .. }));
    let has_lex_docs = base.logical.iter().any(|l| l.starts_with("search ") && !l.contains("total=0"));
    let mut compared = 0u64;
    for k in which.iter().filter(|k| **k != 0) {
        let o = &outs[k];
        let name = VARIANTS[*k];
        if !o.ok || (o.history_violations > 0 && base.history_violations == 0) {
            // with short I/O injected the history must still run exactly as without (metamorphic)
            res.violations.push(ViolationRec { props: vec!["C23".into()], oracle: "variant-runs".into(), sig: name.to_string(), msg: format!("the history that ran cleanly in the base environment did not under `{name}`: {} ({} model violations)", o.note, o.history_violations), op: 0 });
            continue;
        }
        compared += 1;
        *res.probes.entry(format!("compared_{}", name.replace(['+', '-'], "_"))).or_default() += 1;
        if o.op_results != base.op_results {
            let d = o.op_results.iter().zip(base.op_results.iter()).position(|(x, y)| x != y).unwrap_or(0);
            res.violations.push(ViolationRec { props: vec!["C23".into()], oracle: "same-call-outcomes".into(), sig: name.to_string(), msg: format!("`{name}`: call {d} ended {:?}, in the base environment {:?}", o.op_results.get(d), base.op_results.get(d)), op: d });
        }
        if o.logical != base.logical {
            let d = o.logical.iter().zip(base.logical.iter()).position(|(x, y)| x != y).unwrap_or(o.logical.len().min(base.logical.len()));
            let what = base.logical.get(d).map(|l| l.split(' ').next().unwrap_or("frame").to_string()).unwrap_or_else(|| "length".into());
            let what = if what.chars().next().is_some_and(|c| c.is_ascii_digit()) { "frame".to_string() } else { what };
            res.violations.push(ViolationRec { props: vec!["C23".into()], oracle: "logical-state-identical".into(), sig: format!("{name}/{what}"), msg: format!("`{name}`: logical observation differs at line {d}: {:?} vs base {:?}", o.logical.get(d).map(|s| s.chars().take(200).collect::<String>()), base.logical.get(d).map(|s| s.chars().take(200).collect::<String>())), op: 0 });
        }
        let b = std::fs::read(format!("{root}/v{k}.bin")).unwrap_or_default();
        if a != b {
            let regs = differing_regions(&a, &b, &base.frames);
            *res.probes.entry("byte_differences".to_string()).or_default() += 1;
            let first = a.iter().zip(b.iter()).position(|(x, y)| x != y).unwrap_or(a.len().min(b.len()));
            // the TOC records names, offsets and checksums of everything before it, the footer
            // hashes the TOC and the header stores the TOC checksum: when a data region differs
            // those follow; they count as a cause only when nothing else differs
            let derived = |r: &str| matches!(r, "toc" | "footer" | "header.toc_checksum" | "header.footer_offset" | "file-size");
            let mut roots: Vec<String> = regs.iter().filter(|r| !derived(r)).cloned().collect();
            if roots.is_empty() {
                roots = regs.clone();
            }
            for root in roots {
                let flag = match (name, root.as_str()) {
                    // tombstones carry the wall-clock time of the delete call
                    ("clock", _) => if has_delete { "/with-delete" } else { "/no-delete" },
                    _ => "",
                };
                res.violations.push(ViolationRec { props: vec!["C23".into()], oracle: "bytes-identical".into(), sig: format!("{name}/{root}{flag}"), msg: format!("`{name}`: files differ ({} vs {} bytes) in the {root} region; first difference at offset {first}; all regions that differ: {:?}", a.len(), b.len(), regs), op: 0 });
            }
        } else {
            *res.probes.entry("byte_identical".to_string()).or_default() += 1;
        }
    }
    res.probes.insert("variants_compared".into(), compared);
    res.nontrivial = base.acked > 0 && compared > 0;
    res.states = vec![blake3::hash(&a).to_hex()[..12].to_string()];
    res.sample = Some(serde_json::json!({"seed": scn.seed, "calls": base.op_results, "variants": which.iter().map(|k| VARIANTS[*k]).collect::<Vec<_>>(), "file_bytes": a.len(), "clock_reads_base": base.clock_reads, "entropy_draws_base": base.entropy_draws}));
    if !res.violations.is_empty() {
        res.repro = Some(scn.clone());
    }
    res.log_digest = blake3::hash(base.op_results.join(",").as_bytes()).to_hex()[..16].to_string();
    res.wall_ms = shim::real_ms() - t0;
    res
}
