//! Demo for mutant C28/a.
//!
//! Many small put+commit cycles walk the write head of the embedded WAL ring towards the end
//! of the WAL region. Sooner or later the record that crosses the end of the region is the
//! lexical-index manifest record that commit appends while it flushes the Tantivy snapshot
//! (there are pending records at that point, so the ring cannot wrap and the WAL region grows,
//! shifting every byte behind it). After every commit the timeline must list every document,
//! on the live handle, on a reopened handle, on a read-only handle and after a doctor rebuild.

use std::num::NonZeroU64;

use memvid_core::{DoctorOptions, Memvid, PutOptions, TimelineQuery};
use tempfile::TempDir;

fn timeline_ids(mem: &mut Memvid) -> Result<Vec<u64>, String> {
    let query = TimelineQuery::builder()
        .limit(NonZeroU64::new(100_000).unwrap())
        .build();
    mem.timeline(query)
        .map(|entries| entries.into_iter().map(|e| e.frame_id).collect())
        .map_err(|e| e.to_string())
}

#[test]
fn timeline_survives_wal_growth_during_commit() {
    let dir = TempDir::new().unwrap();
    let path = dir.path().join("a.mv2");

    let mut mem = Memvid::create(&path).unwrap();
    mem.enable_lex().unwrap();

    let cycles = 72u64;
    for i in 0..cycles {
        let text = format!(
            "note {i} about the harbour ledger, entry {i}, pier {} and crane {}",
            i % 7,
            i % 11
        );
        let opts = PutOptions {
            uri: Some(format!("mv2://note/{i}")),
            title: Some(format!("Note {i}")),
            timestamp: Some(1_700_000_000 + i as i64),
            search_text: Some(text.clone()),
            auto_tag: false,
            extract_dates: false,
            extract_triplets: false,
            ..Default::default()
        };
        mem.put_bytes_with_options(text.as_bytes(), opts).unwrap();
        mem.commit().unwrap();

        let expected: Vec<u64> = (0..=i).collect();
        let live = timeline_ids(&mut mem);
        assert_eq!(
            live,
            Ok(expected),
            "live timeline wrong after commit #{i} (file len {})",
            std::fs::metadata(&path).unwrap().len()
        );
    }

    let expected: Vec<u64> = (0..cycles).collect();
    let live = timeline_ids(&mut mem);
    drop(mem);

    let mut reopened = Memvid::open(&path).unwrap();
    let after_reopen = timeline_ids(&mut reopened);
    drop(reopened);

    let mut ro = Memvid::open_read_only(&path).unwrap();
    let read_only = timeline_ids(&mut ro);
    drop(ro);

    let doctored_path = dir.path().join("a-doctored.mv2");
    std::fs::copy(&path, &doctored_path).unwrap();
    Memvid::doctor(
        &doctored_path,
        DoctorOptions {
            rebuild_time_index: true,
            rebuild_lex_index: true,
            rebuild_vec_index: false,
            vacuum: false,
            dry_run: false,
            quiet: true,
        },
    )
    .unwrap();
    let mut doctored = Memvid::open_read_only(&doctored_path).unwrap();
    let after_doctor = timeline_ids(&mut doctored);

    assert_eq!(live, Ok(expected.clone()), "live");
    assert_eq!(after_reopen, Ok(expected.clone()), "reopened");
    assert_eq!(read_only, Ok(expected.clone()), "read-only");
    assert_eq!(after_doctor, Ok(expected), "doctored");
}
