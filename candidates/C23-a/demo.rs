//! C23 demo A: the same history executed twice on fresh paths must lay the frame payloads
//! out identically. The history ends with `vacuum()` over several live frames.

use memvid_core::{FrameStatus, Memvid, PutOptions};
use std::path::Path;
use tempfile::TempDir;

const FRAMES: u64 = 24;

/// Run the fixed history and return, per frame, (status-is-active, payload_offset,
/// payload_length), plus the bytes of the payload region of the file.
fn run_history(path: &Path) -> (Vec<(bool, u64, u64)>, Vec<u8>) {
    let mut mem = Memvid::create(path).unwrap();
    for i in 0..FRAMES {
        let opts = PutOptions {
            timestamp: Some(1_700_000_000 + i as i64 * 60),
            uri: Some(format!("mv2://doc/{i}")),
            title: Some(format!("Doc {i}")),
            auto_tag: false,
            extract_dates: false,
            extract_triplets: false,
            instant_index: false,
            ..Default::default()
        };
        // Distinct lengths so that a different order also shifts every offset.
        let body = format!("document number {i} {}", "lorem ipsum ".repeat(3 + i as usize));
        mem.put_bytes_with_options(body.as_bytes(), opts).unwrap();
    }
    mem.commit().unwrap();

    // Punch holes so that vacuum has something to compact.
    for id in [1u64, 5, 6, 13, 20] {
        mem.delete_frame(id).unwrap();
    }
    mem.commit().unwrap();
    mem.vacuum().unwrap();

    let mut layout = Vec::new();
    let mut region_start = u64::MAX;
    let mut region_end = 0u64;
    for id in 0..FRAMES {
        let frame = mem.frame_by_id(id).unwrap();
        let active = frame.status == FrameStatus::Active;
        if active && frame.payload_length > 0 {
            region_start = region_start.min(frame.payload_offset);
            region_end = region_end.max(frame.payload_offset + frame.payload_length);
        }
        layout.push((active, frame.payload_offset, frame.payload_length));
    }
    // Content must still be intact regardless of layout.
    for id in 0..FRAMES {
        if layout[id as usize].0 {
            let text = mem.frame_text_by_id(id).unwrap();
            assert!(text.starts_with(&format!("document number {id} ")));
        }
    }
    drop(mem);

    let bytes = std::fs::read(path).unwrap();
    let region = bytes[region_start as usize..region_end as usize].to_vec();
    (layout, region)
}

#[test]
fn vacuum_layout_is_reproducible() {
    let dir_a = TempDir::new().unwrap();
    let dir_b = TempDir::new().unwrap();
    let (layout_a, region_a) = run_history(&dir_a.path().join("a.mv2"));
    let (layout_b, region_b) = run_history(&dir_b.path().join("b.mv2"));

    assert_eq!(
        layout_a, layout_b,
        "same history, different payload offsets after vacuum"
    );
    assert!(
        region_a == region_b,
        "same history, different payload-region bytes after vacuum"
    );
}
