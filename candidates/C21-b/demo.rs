//! C21 demo B: doctor heals, preserves frames, and an immediate second run reports Clean.
//!
//! The memory holds one short document and one document long enough to be stored as a parent
//! frame plus `DocumentChunk` child frames. Only the header's TOC checksum is damaged.

use std::fs;
use std::path::Path;

use memvid_core::{
    DoctorOptions, DoctorStatus, FrameRole, FrameStatus, Memvid, PutOptions, VerificationStatus,
};
use tempfile::TempDir;

fn active_payloads(path: &Path) -> Vec<(u64, Vec<u8>)> {
    let mut mem = Memvid::open(path).expect("open");
    let mut out = Vec::new();
    for id in 0..mem.frame_count() as u64 {
        let frame = mem.frame_by_id(id).expect("frame");
        if frame.status != FrameStatus::Active {
            continue;
        }
        let payload = mem
            .frame_canonical_payload(id)
            .unwrap_or_else(|err| panic!("payload of active frame {id} unreadable: {err}"));
        out.push((id, payload));
    }
    out
}

fn long_text() -> String {
    let mut text = String::new();
    let mut i = 0u32;
    while text.len() < 9000 {
        text.push_str(&format!(
            "Sentence number {i} of the long report talks about harbour logistics and tide tables. "
        ));
        i += 1;
    }
    text
}

#[test]
fn doctor_is_idempotent_on_memory_with_chunked_document() {
    let dir = TempDir::new().unwrap();
    let path = dir.path().join("mem.mv2");

    {
        let mut mem = Memvid::create(&path).unwrap();
        let opts = PutOptions {
            uri: Some("mv2://short".to_string()),
            ..Default::default()
        };
        mem.put_bytes_with_options(b"a short note about lighthouses", opts)
            .unwrap();
        let opts = PutOptions {
            uri: Some("mv2://long".to_string()),
            ..Default::default()
        };
        mem.put_bytes_with_options(long_text().as_bytes(), opts)
            .unwrap();
        mem.commit().unwrap();
    }

    {
        // Precondition of the demo: the long document really produced chunk frames.
        let mem = Memvid::open(&path).unwrap();
        let chunks = (0..mem.frame_count() as u64)
            .filter(|id| mem.frame_by_id(*id).unwrap().role == FrameRole::DocumentChunk)
            .count();
        assert!(chunks > 0, "expected the long document to be chunked");
    }

    let before = active_payloads(&path);

    // Damage only the TOC checksum stored in the header (bytes 48..80).
    let mut bytes = fs::read(&path).unwrap();
    for b in &mut bytes[48..80] {
        *b ^= 0x5A;
    }
    fs::write(&path, &bytes).unwrap();

    let options = || DoctorOptions {
        quiet: true,
        ..Default::default()
    };

    let first = Memvid::doctor(&path, options()).expect("doctor");
    assert!(
        matches!(first.status, DoctorStatus::Healed),
        "first run: {:?} {:?}",
        first.status,
        first.findings
    );

    let verify = Memvid::verify(&path, true).expect("verify");
    assert_eq!(
        verify.overall_status,
        VerificationStatus::Passed,
        "{:?}",
        verify.checks
    );
    assert_eq!(before, active_payloads(&path), "doctor altered a frame");

    let second = Memvid::doctor(&path, options()).expect("second doctor");
    let planned: Vec<_> = second
        .plan
        .phases
        .iter()
        .flat_map(|phase| phase.actions.iter().map(|action| action.action))
        .collect();
    assert!(
        matches!(second.status, DoctorStatus::Clean),
        "second run on the just-healed file reported {:?}; planned actions {:?}; findings {:?}",
        second.status,
        planned,
        second.plan.findings
    );
}
