//! C29 demo A: a one-bit edit of the capsule header's `original_size` field must make
//! unlock fail; it must never produce a plaintext that differs from the original.
#![cfg(feature = "encryption")]

use memvid_core::encryption::{Mv2eHeader, lock_file, unlock_file};
use std::fs;
use tempfile::TempDir;

const MIB: usize = 1024 * 1024;

/// A file that passes the `.mv2` magic check, filled with a cheap pseudo-random stream.
fn synthetic_mv2(len: usize) -> Vec<u8> {
    let mut out = Vec::with_capacity(len);
    out.extend_from_slice(b"MV2\0");
    let mut x: u64 = 0x9E37_79B9_7F4A_7C15;
    while out.len() < len {
        x ^= x << 13;
        x ^= x >> 7;
        x ^= x << 17;
        out.extend_from_slice(&x.to_le_bytes());
    }
    out.truncate(len);
    out
}

#[test]
fn header_size_bit_flip_is_rejected() {
    let dir = TempDir::new().unwrap();
    let plain = dir.path().join("f.mv2");
    let capsule = dir.path().join("f.mv2e");
    let restored = dir.path().join("restored.mv2");

    // 2.5 MiB = 0x28_0000 bytes: two full 1 MiB chunks and a half one.
    let original = synthetic_mv2(2 * MIB + MIB / 2);
    fs::write(&plain, &original).unwrap();
    lock_file(&plain, Some(capsule.as_path()), b"pw").expect("lock");

    // Sanity: the untouched capsule round-trips.
    unlock_file(&capsule, Some(restored.as_path()), b"pw").expect("unlock of intact capsule");
    assert_eq!(fs::read(&restored).unwrap(), original);
    fs::remove_file(&restored).unwrap();

    // Flip ONE bit of the header: original_size lives at bytes 52..60 (little endian).
    // 0x28_0000 -> 0x20_0000 (bit 19), i.e. the size now says "2 MiB".
    let mut bytes = fs::read(&capsule).unwrap();
    assert_eq!(Mv2eHeader::SIZE, 64);
    assert_eq!(
        u64::from_le_bytes(bytes[52..60].try_into().unwrap()),
        original.len() as u64
    );
    bytes[54] ^= 0x08;
    assert_eq!(
        u64::from_le_bytes(bytes[52..60].try_into().unwrap()),
        2 * MIB as u64
    );
    let tampered = dir.path().join("tampered.mv2e");
    fs::write(&tampered, &bytes).unwrap();

    let result = unlock_file(&tampered, Some(restored.as_path()), b"pw");
    let written = fs::read(&restored).ok();
    if let Some(w) = &written {
        assert!(
            *w == original,
            "unlock of a capsule with an edited header wrote {} bytes that differ from the original ({} bytes); result = {:?}",
            w.len(),
            original.len(),
            result
        );
    }
    assert!(
        result.is_err(),
        "unlock accepted a capsule whose header was modified: {:?}",
        result
    );
}
