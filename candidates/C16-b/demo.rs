//! C16 demo B: deep pagination over more matching documents than the first-page
//! candidate window (max(20, 4 * top_k)).
//!
//! 32 one-sentence documents all match the query (one hit each). Walking
//! next_cursor with a small page size must reach all 32 hits, in the same order as
//! one request with a large top_k.

use memvid_core::types::AclEnforcementMode;
use memvid_core::{Memvid, PutOptions, SearchRequest};
use tempfile::tempdir;

fn request(query: &str, top_k: usize, cursor: Option<String>) -> SearchRequest {
    SearchRequest {
        query: query.into(),
        top_k,
        snippet_chars: 80,
        uri: None,
        scope: None,
        cursor,
        #[cfg(feature = "temporal_track")]
        temporal: None,
        as_of_frame: None,
        as_of_ts: None,
        no_sketch: false,
        acl_context: None,
        acl_enforcement_mode: AclEnforcementMode::Audit,
    }
}

type Hit = (u64, (usize, usize));

fn walk(mem: &mut Memvid, query: &str, top_k: usize) -> Vec<Hit> {
    let mut hits = Vec::new();
    let mut cursor: Option<String> = None;
    for _ in 0..200 {
        let page = mem
            .search(request(query, top_k, cursor.clone()))
            .expect("search");
        hits.extend(page.hits.iter().map(|h| (h.frame_id, h.range)));
        match page.next_cursor {
            Some(next) => cursor = Some(next),
            None => return hits,
        }
    }
    panic!("pagination did not terminate");
}

#[test]
fn deep_pagination_reaches_every_hit() {
    let dir = tempdir().expect("tmp");
    let path = dir.path().join("c16b.mv2");
    let mut mem = Memvid::create(&path).expect("create");
    mem.enable_lex().expect("lex");

    for i in 0..32 {
        let text = format!("Note {i}: the otter crossed the river at dawn.");
        let opts = PutOptions::builder()
            .uri(format!("mv2://notes/{i}"))
            .timestamp(1_700_000_000)
            .build();
        mem.put_bytes_with_options(text.as_bytes(), opts)
            .expect("put");
    }
    mem.commit().expect("commit");

    let full = walk(&mut mem, "otter", 200);
    assert_eq!(full.len(), 32, "every document should match once: {full:?}");

    // top_k = 1 is left out: with a single snippet per document the snippet range is
    // cut shorter than in the large request on the unchanged tree as well.
    for top_k in 2..=10usize {
        let paged = walk(&mut mem, "otter", top_k);
        assert_eq!(
            paged.len(),
            full.len(),
            "top_k={top_k}: pagination stopped after {} of {} hits",
            paged.len(),
            full.len()
        );
        assert_eq!(
            paged, full,
            "top_k={top_k}: paginated hits differ from the single large request"
        );
    }
}
