//! C26 demo B: a bulk load is flushed with `commit_skip_indexes()`, then ordinary puts (with
//! triplet extraction and instant indexing / background enrichment) follow. Cards, enrichment
//! records and enrichment-queue entries must refer to the frame each document really receives.

use memvid_core::{Memvid, PutOptions};
use tempfile::tempdir;

#[test]
fn derived_data_after_bulk_flush_points_at_its_own_frame() {
    let dir = tempdir().unwrap();
    let path = dir.path().join("demo_b.mv2");
    let mut mem = Memvid::create(&path).unwrap();

    // Bulk phase: a handful of neutral documents, flushed without building indexes.
    for i in 0..5 {
        let text = format!("Neutral note number {i}: the weather over the hills was cloudy.");
        mem.put_bytes_with_options(
            text.as_bytes(),
            PutOptions::builder()
                .uri(format!("mv2://bulk/{i}"))
                .extract_triplets(false)
                .build(),
        )
        .unwrap();
    }
    mem.commit_skip_indexes().unwrap();
    assert_eq!(mem.frame_count(), 5);

    // Interactive phase on the same handle: a document with facts, queued for enrichment.
    mem.put_bytes_with_options(
        b"I work at Anthropic. I live in San Francisco.",
        PutOptions::builder()
            .uri("mv2://docs/facts")
            .instant_index(true)
            .enable_embedding(true)
            .build(),
    )
    .unwrap();

    let queued: Vec<u64> = {
        let mut ids = Vec::new();
        if let Some(task) = mem.next_enrichment_task() {
            ids.push(task.frame_id);
        }
        ids
    };
    assert_eq!(mem.enrichment_queue_len(), 1, "one document was queued");

    mem.commit().unwrap();

    let facts_frame = mem.frame_by_uri("mv2://docs/facts").unwrap();
    assert_eq!(facts_frame.id, 5);

    // Enrichment queue entry created by the put.
    assert_eq!(
        queued,
        vec![facts_frame.id],
        "enrichment queue entry does not refer to the document's frame"
    );

    // Cards.
    let cards: Vec<_> = mem.memories().cards().to_vec();
    assert!(!cards.is_empty(), "expected cards from the facts document");
    for card in &cards {
        assert_eq!(
            card.source_frame_id, facts_frame.id,
            "card {}:{}={} refers to frame {} but its document is frame {}",
            card.entity, card.slot, card.value, card.source_frame_id, facts_frame.id
        );
        let text = mem.frame_text_by_id(card.source_frame_id).unwrap();
        assert!(text.contains(&card.value));
    }

    // Enrichment records.
    let manifest = mem.memories().enrichment_manifest();
    assert!(manifest.get_record(facts_frame.id).is_some());
    for frame_id in manifest.enriched_frames() {
        assert_eq!(frame_id, facts_frame.id);
    }

    // The queued task can actually be processed (its frame exists).
    let task = mem.next_enrichment_task().expect("task still queued");
    let result = mem.process_enrichment_task(&task);
    assert!(result.error.is_none(), "enrichment failed: {:?}", result.error);
}
