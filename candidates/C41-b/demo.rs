//! Demo for mutant C41/b: a stop request that reaches the worker before its thread has
//! executed its first step must still stop it ("the worker stops when asked").
//!
//! Schedule needed: `stop()` / `stop_and_wait()` runs between `start_enrichment_worker`
//! returning and the spawned thread entering `run_worker_loop`. Calling `stop_and_wait()` right
//! after start hits that window almost always (the spawning thread keeps the CPU); the demo
//! repeats it a number of times and fails if any worker is still alive after a generous
//! timeout.

use std::sync::mpsc;
use std::sync::{Arc, Mutex};
use std::time::Duration;

use memvid_core::enrichment_worker::{
    EnrichmentWorkerConfig, EnrichmentWorkerHandle, run_worker_loop,
};
use memvid_core::types::EnrichmentState;
use memvid_core::{Memvid, PutOptions, start_enrichment_worker};
use tempfile::TempDir;

/// An idle worker needs a few milliseconds to notice a stop request; this is deliberately huge
/// so that a heavily loaded machine cannot produce a false alarm.
const STOP_TIMEOUT_SECS: u64 = 20;

fn plain_memory(dir: &TempDir) -> (Memvid, EnrichmentState) {
    let path = dir.path().join("demo.mv2");
    let mut mem = Memvid::create(&path).unwrap();
    // One ordinary committed document; nothing is queued, so a healthy worker has no work to
    // do (and no checkpoint commit to run) and must exit as soon as it sees the stop request.
    let opts = PutOptions {
        uri: Some("mv2://plain".to_string()),
        search_text: Some("plain document about astronomy".to_string()),
        ..Default::default()
    };
    mem.put_bytes_with_options(b"plain document about astronomy", opts)
        .unwrap();
    mem.commit().unwrap();
    assert_eq!(mem.enrichment_queue_len(), 0);
    let state_before = mem.frame_by_id(0).unwrap().enrichment_state;
    (mem, state_before)
}

/// Deterministic form of the schedule: the stop request is already there when the worker
/// thread executes its first step. `run_worker_loop` is driven exactly the way
/// `start_enrichment_worker` drives it (same four closures over the mutex-shared handle), the
/// only difference being that `stop()` is sequenced before the worker thread is spawned
/// instead of racing with its start-up.
#[test]
fn stop_requested_before_first_worker_step_is_honoured() {
    let dir = TempDir::new().unwrap();
    let (mem, state_before) = plain_memory(&dir);
    let shared = Arc::new(Mutex::new(mem));
    let config = EnrichmentWorkerConfig {
        task_delay_ms: 2,
        ..Default::default()
    };

    let handle = EnrichmentWorkerHandle::new();
    let worker_handle = handle.clone_handle();
    handle.stop(); // the stop request wins the race against the worker's start-up

    let (tx, rx) = mpsc::channel();
    let mv = Arc::clone(&shared);
    std::thread::spawn(move || {
        run_worker_loop(
            &worker_handle,
            &config,
            || mv.lock().ok()?.next_enrichment_task(),
            |task| mv.lock().unwrap().process_enrichment_task(task),
            |frame_id| mv.lock().unwrap().complete_enrichment_task(frame_id),
            || {
                let _ = mv.lock().unwrap().commit();
            },
        );
        let _ = tx.send(());
    });

    let stopped = rx.recv_timeout(Duration::from_secs(STOP_TIMEOUT_SECS)).is_ok();
    println!(
        "worker loop returned within {STOP_TIMEOUT_SECS} s of a stop request issued before its first step: {stopped}"
    );
    assert!(stopped, "worker ignored a stop request that arrived before its first step");
    assert!(!handle.is_running());

    let mv = shared.lock().unwrap();
    assert_eq!(mv.frame_count(), 1);
    assert_eq!(mv.frame_by_id(0).unwrap().enrichment_state, state_before);
}

/// The same schedule with real threads and the real `start_enrichment_worker`: stop right after
/// start, many times, with spinner threads keeping the CPUs busy so that the freshly spawned
/// worker is sometimes scheduled late. Best effort - whether the window is hit depends on the
/// OS scheduler.
#[test]
fn stop_requested_right_after_start_is_honoured() {
    let dir = TempDir::new().unwrap();
    let (mem, state_before) = plain_memory(&dir);

    let spin = Arc::new(std::sync::atomic::AtomicBool::new(true));
    let spinners: Vec<_> = (0..32)
        .map(|_| {
            let spin = Arc::clone(&spin);
            std::thread::spawn(move || {
                while spin.load(std::sync::atomic::Ordering::Relaxed) {
                    std::hint::spin_loop();
                }
            })
        })
        .collect();

    let shared = Arc::new(Mutex::new(mem));
    let config = EnrichmentWorkerConfig {
        task_delay_ms: 2,
        ..Default::default()
    };

    let rounds = 2000;
    let mut hung = 0;
    for round in 0..rounds {
        let (tx, rx) = mpsc::channel();
        let shared_for_round = Arc::clone(&shared);
        let config_for_round = config.clone();
        // Start the worker and ask it to stop straight away (its thread has most likely not run
        // yet). Done on a helper thread so that a lost stop request shows up as a timeout here
        // instead of hanging the test.
        std::thread::spawn(move || {
            let handle = start_enrichment_worker(shared_for_round, Some(config_for_round));
            let stats = handle.stop_and_wait();
            let _ = tx.send(stats);
        });
        match rx.recv_timeout(Duration::from_secs(STOP_TIMEOUT_SECS)) {
            Ok(stats) => {
                assert!(!stats.is_running, "round {round}: worker reported running after join");
            }
            Err(_) => {
                hung += 1;
                println!(
                    "round {round}: worker still alive {STOP_TIMEOUT_SECS} s after stop_and_wait() - stop request was lost"
                );
                // That worker can never be stopped any more; no point in piling up more of them.
                break;
            }
        }
    }
    spin.store(false, std::sync::atomic::Ordering::Relaxed);
    for s in spinners {
        let _ = s.join();
    }
    println!("workers that ignored the stop request: {hung}");
    assert_eq!(hung, 0, "a worker ignored a stop request issued right after start");

    // Sanity: nothing was queued, so nothing may have changed.
    let mv = shared.lock().unwrap();
    assert_eq!(mv.frame_count(), 1);
    assert_eq!(mv.frame_by_id(0).unwrap().enrichment_state, state_before);
}
