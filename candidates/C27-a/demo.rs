//! C27 demo A: with two (or more) non-retracted cards tied on the latest effective time,
//! `get_memory_at_time(e, s, t)` for t at or beyond that time must be the same card as
//! `get_current_memory(e, s)`.

use memvid_core::{MemoryCard, MemoryCardBuilder, Memvid};
use tempfile::TempDir;

fn card(value: &str, event_date: i64, retract: bool) -> MemoryCard {
    let mut b = MemoryCardBuilder::new()
        .fact()
        .entity("user")
        .slot("team")
        .value(value)
        .event_date(event_date)
        .source(0, None)
        .engine("demo", "1.0.0");
    if retract {
        b = b.retracts();
    } else {
        b = b.updates();
    }
    b.build(0).unwrap()
}

#[test]
fn at_time_equals_current_when_latest_cards_tie() {
    let dir = TempDir::new().unwrap();
    let path = dir.path().join("c27a.mv2");
    let mut mem = Memvid::create(&path).unwrap();

    // History of the slot: one old value, then two corrections recorded for the same instant
    // (same event date), then a retraction that is older than both.
    mem.put_memory_card(card("storage", 1_000, false)).unwrap();
    mem.put_memory_card(card("search", 2_000, false)).unwrap();
    mem.put_memory_card(card("retrieval", 2_000, false)).unwrap();
    mem.put_memory_card(card("storage", 1_500, true)).unwrap();

    let current = mem
        .get_current_memory("user", "team")
        .expect("slot has a current value")
        .clone();
    assert_eq!(current.effective_timestamp(), 2_000);

    // No ties below 2000: both views agree there (this also holds with the patch).
    let before = mem.get_memory_at_time("user", "team", 1_999).unwrap();
    assert_eq!(before.value, "storage");
    assert!(!before.is_retracted());

    // At and beyond the latest card the point-in-time view is the current view.
    for t in [2_000, 2_001, 10_000, i64::MAX] {
        let at = mem
            .get_memory_at_time("user", "team", t)
            .expect("slot has a value at t");
        assert!(at.effective_timestamp() <= t);
        assert!(!at.is_retracted());
        assert_eq!(
            (at.id, at.value.as_str()),
            (current.id, current.value.as_str()),
            "get_memory_at_time(t={t}) differs from get_current_memory"
        );
    }

    // Same after commit + reopen.
    mem.commit().unwrap();
    drop(mem);
    let mem = Memvid::open(&path).unwrap();
    let current = mem.get_current_memory("user", "team").unwrap();
    let at = mem.get_memory_at_time("user", "team", 5_000).unwrap();
    assert_eq!(at.id, current.id, "after reopen");
}
