//! C16 demo A: a page boundary that falls inside a document with several snippets.
//!
//! Six documents each mention the query term in two far-apart sentences, so every
//! document contributes two hits (two snippet ranges). With an odd page size the
//! second page starts in the middle of a document. Walking next_cursor must give
//! exactly the hit sequence of one big request.

use memvid_core::types::AclEnforcementMode;
use memvid_core::{Memvid, PutOptions, SearchRequest};
use tempfile::tempdir;

const FILLER: &str = "The harbour was quiet that morning. Fishing boats rocked gently at their moorings. \
Gulls circled above the breakwater looking for scraps. A cold wind came down from the northern hills. \
Nobody on the quay paid much attention to the tide tables. The lighthouse keeper logged the barometer reading. \
Crates of salted cod were stacked beside the warehouse door. ";

fn request(query: &str, top_k: usize, cursor: Option<String>) -> SearchRequest {
    SearchRequest {
        query: query.into(),
        top_k,
        snippet_chars: 80,
        uri: None,
        scope: None,
        cursor,
        #[cfg(feature = "temporal_track")]
        temporal: None,
        as_of_frame: None,
        as_of_ts: None,
        no_sketch: false,
        acl_context: None,
        acl_enforcement_mode: AclEnforcementMode::Audit,
    }
}

type Hit = (u64, (usize, usize));

fn walk(mem: &mut Memvid, query: &str, top_k: usize) -> (Vec<Hit>, Vec<usize>) {
    let mut hits = Vec::new();
    let mut totals = Vec::new();
    let mut cursor: Option<String> = None;
    for _ in 0..100 {
        let page = mem
            .search(request(query, top_k, cursor.clone()))
            .expect("search");
        totals.push(page.total_hits);
        hits.extend(page.hits.iter().map(|h| (h.frame_id, h.range)));
        match page.next_cursor {
            Some(next) => cursor = Some(next),
            None => return (hits, totals),
        }
    }
    panic!("pagination did not terminate");
}

#[test]
fn pages_split_inside_a_multi_snippet_document() {
    let dir = tempdir().expect("tmp");
    let path = dir.path().join("c16a.mv2");
    let mut mem = Memvid::create(&path).expect("create");
    mem.enable_lex().expect("lex");

    for i in 0..6 {
        let text = format!(
            "Report {i}: a walrus was seen near the pier. {FILLER}{FILLER}\
             Later that day another walrus hauled out on the slipway."
        );
        let opts = PutOptions::builder()
            .uri(format!("mv2://reports/{i}"))
            .timestamp(1_700_000_000)
            .build();
        mem.put_bytes_with_options(text.as_bytes(), opts)
            .expect("put");
    }
    mem.commit().expect("commit");

    let (full, _) = walk(&mut mem, "walrus", 100);
    assert_eq!(full.len(), 12, "two snippets per document expected: {full:?}");

    // Page sizes >= 2 (every document has two snippets; max snippets per doc follows top_k).
    for top_k in 2..=10usize {
        let (paged, totals) = walk(&mut mem, "walrus", top_k);
        assert!(
            totals.iter().all(|t| *t == totals[0]),
            "top_k={top_k}: total_hits differs between pages: {totals:?}"
        );
        assert_eq!(
            paged, full,
            "top_k={top_k}: paginated hits differ from the single large request"
        );
    }
}
