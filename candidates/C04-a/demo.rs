//! Demo for mutant C04/A: a crash inside `Memvid::open`'s recovery of a pending *delete*,
//! taken right before one of the header persists, must leave a file that the next open
//! recovers to the same frames as an uninterrupted recovery.
//!
//! The crash is simulated in-process: this test binary defines its own `write` symbol, which
//! (while tracking is on) copies the target file *before* every write the library issues to it.
//! Each copy is exactly the file a process crash at that point would leave behind.
//! Linux / x86_64 only (raw syscall numbers).
#![cfg(all(target_os = "linux", target_arch = "x86_64"))]

use std::cell::Cell;
use std::ffi::{c_int, c_long, c_void};
use std::path::{Path, PathBuf};
use std::sync::Mutex;
use std::sync::atomic::{AtomicBool, Ordering};

use memvid_core::{Memvid, PutOptions};

unsafe extern "C" {
    fn syscall(num: c_long, ...) -> c_long;
}
const SYS_WRITE: c_long = 1;

static TRACK: AtomicBool = AtomicBool::new(false);
static TARGET: Mutex<Option<PathBuf>> = Mutex::new(None);
/// (length of the write that was about to happen, file image before it)
static SNAPS: Mutex<Vec<(usize, Vec<u8>)>> = Mutex::new(Vec::new());
thread_local! { static BUSY: Cell<bool> = const { Cell::new(false) }; }

fn before_write(fd: c_int, n: usize) {
    if !TRACK.load(Ordering::SeqCst) || BUSY.with(|b| b.replace(true)) {
        return;
    }
    let target = TARGET.lock().unwrap().clone();
    if let Some(target) = target {
        if std::fs::read_link(format!("/proc/self/fd/{fd}")).is_ok_and(|l| l == target) {
            let image = std::fs::read(&target).unwrap();
            SNAPS.lock().unwrap().push((n, image));
        }
    }
    BUSY.with(|b| b.set(false));
}

#[unsafe(no_mangle)]
pub unsafe extern "C" fn write(fd: c_int, buf: *const c_void, n: usize) -> isize {
    before_write(fd, n);
    unsafe { syscall(SYS_WRITE, fd as c_long, buf, n) as isize }
}

fn frames(path: &Path) -> Result<Vec<String>, String> {
    let mut mem = Memvid::open(path).map_err(|e| format!("open failed: {e}"))?;
    let mut out = Vec::new();
    for id in 0..mem.frame_count() as u64 {
        let f = mem.frame_by_id(id).map_err(|e| e.to_string())?;
        let body = if format!("{:?}", f.status) == "Active" {
            mem.frame_canonical_payload(id)
                .map(|b| String::from_utf8_lossy(&b).into_owned())
                .unwrap_or_else(|e| format!("<unreadable: {e}>"))
        } else {
            String::new()
        };
        out.push(format!("{id} {:?} {:?} {body:?}", f.status, f.uri));
    }
    Ok(out)
}

#[test]
fn crash_before_header_persist_during_delete_recovery_is_recoverable() {
    let dir = tempfile::tempdir().unwrap();
    let live = dir.path().join("live.mv2");
    let opt = |u: &str| PutOptions {
        uri: Some(format!("mv2://{u}")),
        timestamp: Some(1_700_000_000),
        ..Default::default()
    };

    // History: two committed frames, then an acknowledged but uncommitted delete; "crash".
    let mut mem = Memvid::create(&live).unwrap();
    mem.put_bytes_with_options(b"alpha document about cats", opt("a")).unwrap();
    mem.put_bytes_with_options(b"beta document about dogs", opt("b")).unwrap();
    mem.commit().unwrap();
    mem.delete_frame(0).unwrap();
    let crash_left = std::fs::read(&live).unwrap();
    std::mem::forget(mem); // no Drop => no implicit commit

    // Reference: one uninterrupted recovery, and reopening it changes nothing.
    let reference_path = dir.path().join("reference.mv2");
    std::fs::write(&reference_path, &crash_left).unwrap();
    let reference = frames(&reference_path).expect("uninterrupted recovery");
    assert!(reference[0].contains("Deleted"), "{reference:?}");
    assert_eq!(frames(&reference_path).unwrap(), reference, "reopen changed frames");

    // Run the recovery again, recording the file image before every write to it.
    let tracked = dir.path().join("tracked.mv2");
    std::fs::write(&tracked, &crash_left).unwrap();
    *TARGET.lock().unwrap() = Some(tracked.clone());
    TRACK.store(true, Ordering::SeqCst);
    let opened = Memvid::open(&tracked);
    TRACK.store(false, Ordering::SeqCst);
    drop(opened.expect("tracked recovery"));
    let snaps = std::mem::take(&mut *SNAPS.lock().unwrap());

    // Crash points: right before each 4096-byte header persist of the recovery
    // (persist_header after the TOC rewrite(s), and the final one after the WAL checkpoint).
    let header_points: Vec<usize> = snaps
        .iter()
        .enumerate()
        .filter(|(_, (n, _))| *n == 4096)
        .map(|(k, _)| k)
        .collect();
    assert!(header_points.len() >= 2, "expected several header persists, got {header_points:?}");

    let mut failures = Vec::new();
    for k in header_points {
        let p = dir.path().join(format!("crash-{k}.mv2"));
        std::fs::write(&p, &snaps[k].1).unwrap();
        match frames(&p) {
            Ok(got) if got == reference => {
                // and the recovered file is stable
                match frames(&p) {
                    Ok(again) if again == reference => {}
                    other => failures.push(format!("crash before write #{k}: second reopen -> {other:?}")),
                }
            }
            other => failures.push(format!("crash before write #{k}: reopen -> {other:?}")),
        }
    }
    assert!(failures.is_empty(), "recovery is not crash-safe:\n{}", failures.join("\n"));
}
