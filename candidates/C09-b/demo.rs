//! Demonstration for mutant C09/b.
//!
//! History: put eight short documents, commit, delete one of the early frames, commit,
//! close, reopen, search with the default options (sketch pre-filter enabled).
//!
//! The query word "xylophone" occurs as a whole word in the searchable text of exactly two
//! active frames (ids 4 and 7; 7 is the most recently stored frame), so a search with
//! top_k = 10 must return both of them, before and after the reopen, with and without the
//! pre-filter.

use memvid_core::{Memvid, PutOptions, SearchRequest};
use tempfile::TempDir;

fn request(query: &str, top_k: usize, no_sketch: bool) -> SearchRequest {
    SearchRequest {
        query: query.to_string(),
        top_k,
        snippet_chars: 200,
        uri: None,
        scope: None,
        cursor: None,
        #[cfg(feature = "temporal_track")]
        temporal: None,
        as_of_frame: None,
        as_of_ts: None,
        no_sketch,
        acl_context: None,
        acl_enforcement_mode: memvid_core::types::AclEnforcementMode::Audit,
    }
}

fn hit_frames(mem: &mut Memvid, no_sketch: bool) -> Vec<u64> {
    let response = mem
        .search(request("xylophone", 10, no_sketch))
        .expect("search");
    let mut ids: Vec<u64> = response.hits.iter().map(|hit| hit.frame_id).collect();
    ids.sort_unstable();
    ids.dedup();
    ids
}

const DOCS: [&str; 8] = [
    "amber basalt cedar",
    "delta ember fjord",
    "garnet harbor indigo",
    "juniper kelp lagoon",
    "meadow xylophone nectar",
    "onyx prairie quartz",
    "ridge umber summit",
    "tundra xylophone valley",
];

#[test]
fn recall_survives_delete_commit_reopen() {
    let dir = TempDir::new().unwrap();
    let path = dir.path().join("demo.mv2");

    {
        let mut mem = Memvid::create(&path).unwrap();
        mem.enable_lex().unwrap();
        for (i, text) in DOCS.iter().enumerate() {
            let opts = PutOptions {
                uri: Some(format!("mv2://demo/{i}")),
                search_text: Some((*text).to_string()),
                ..Default::default()
            };
            mem.put_bytes_with_options(text.as_bytes(), opts).unwrap();
        }
        mem.commit().unwrap();
        assert_eq!(hit_frames(&mut mem, false), vec![4, 7], "fresh, default");
        assert_eq!(hit_frames(&mut mem, true), vec![4, 7], "fresh, no_sketch");

        // Delete an unrelated frame that precedes the matching ones.
        mem.delete_frame(1).unwrap();
        mem.commit().unwrap();
        assert_eq!(hit_frames(&mut mem, false), vec![4, 7], "after delete, default");
        assert_eq!(hit_frames(&mut mem, true), vec![4, 7], "after delete, no_sketch");
    }

    let mut mem = Memvid::open(&path).unwrap();
    assert_eq!(
        hit_frames(&mut mem, true),
        vec![4, 7],
        "after reopen, pre-filter disabled"
    );
    assert_eq!(
        hit_frames(&mut mem, false),
        vec![4, 7],
        "after reopen, default options (pre-filter enabled)"
    );
}
