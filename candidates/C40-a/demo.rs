//! C40 demo A: a batch that pre-sizes the WAL (`PutManyOpts::wal_pre_size_bytes`) on a memory
//! that already holds committed documents must end up identical to plain puts + commit.

use memvid_core::types::AclEnforcementMode;
use memvid_core::{Memvid, PutManyOpts, PutOptions, SearchRequest, TimelineQuery};
use std::num::NonZeroU64;
use tempfile::TempDir;

/// Documents committed with plain puts before the batch starts.
const FIRST: usize = 24;
/// Documents ingested through the batch.
const TOTAL: usize = 30;

/// A distinct, purely alphabetic keyword per document.
fn keyword(i: usize) -> String {
    let a = (b'a' + (i / 26) as u8) as char;
    let b = (b'a' + (i % 26) as u8) as char;
    format!("zq{a}{b}marker")
}

/// Deterministic pseudo-random filler so every document carries a few KiB of payload that does
/// not compress to nothing.
fn filler(seed: u64, words: usize) -> String {
    let mut state = seed.wrapping_mul(0x9E37_79B9_7F4A_7C15) | 1;
    let mut out = String::new();
    for _ in 0..words {
        state ^= state << 13;
        state ^= state >> 7;
        state ^= state << 17;
        out.push_str(&format!("w{:x} ", state & 0xff_ffff));
    }
    out
}

fn doc(i: usize) -> (String, PutOptions) {
    let word = keyword(i);
    let text = format!(
        "Field note number {i}: today we observed the {word} near the river bank. {}",
        filler(i as u64 + 1, 700)
    );
    let opts = PutOptions {
        uri: Some(format!("mv2://notes/{i}")),
        title: Some(format!("Note {i}")),
        timestamp: Some(1_700_000_000 + i as i64 * 60),
        ..Default::default()
    };
    (text, opts)
}

fn put(mem: &mut Memvid, i: usize) {
    let (text, opts) = doc(i);
    mem.put_bytes_with_options(text.as_bytes(), opts).unwrap();
}

fn lex_hits(mem: &mut Memvid, query: &str) -> Vec<String> {
    let resp = mem
        .search(SearchRequest {
            query: query.to_string(),
            top_k: 50,
            snippet_chars: 120,
            uri: None,
            scope: None,
            cursor: None,
            #[cfg(feature = "temporal_track")]
            temporal: None,
            as_of_frame: None,
            as_of_ts: None,
            no_sketch: false,
            acl_context: None,
            acl_enforcement_mode: AclEnforcementMode::Audit,
        })
        .unwrap();
    let mut uris: Vec<String> = resp.hits.into_iter().map(|h| h.uri).collect();
    uris.sort();
    uris.dedup();
    uris
}

#[derive(Debug, PartialEq)]
struct Snapshot {
    /// uri, timestamp, text view, stored (canonical) payload read back from the file
    frames: Vec<(
        Option<String>,
        i64,
        Result<String, String>,
        Result<String, String>,
    )>,
    timeline: Vec<(u64, i64)>,
    lex: Vec<(String, Vec<String>)>,
}

fn snapshot(mem: &mut Memvid) -> Snapshot {
    let n = mem.frame_count();
    let mut frames = Vec::new();
    for id in 0..n as u64 {
        let frame = mem.frame_by_id(id).unwrap();
        let text = mem.frame_text_by_id(id).map_err(|e| e.to_string());
        let payload = mem
            .frame_canonical_payload(id)
            .map(|bytes| String::from_utf8_lossy(&bytes).into_owned())
            .map_err(|e| e.to_string());
        frames.push((frame.uri.clone(), frame.timestamp, text, payload));
    }
    let timeline = mem
        .timeline(TimelineQuery {
            limit: NonZeroU64::new(1000),
            since: None,
            until: None,
            reverse: false,
            #[cfg(feature = "temporal_track")]
            temporal: None,
        })
        .unwrap()
        .into_iter()
        .map(|e| (e.frame_id, e.timestamp))
        .collect();
    let mut lex = Vec::new();
    for i in 0..TOTAL {
        let word = keyword(i);
        let hits = lex_hits(mem, &word);
        lex.push((word, hits));
    }
    Snapshot {
        frames,
        timeline,
        lex,
    }
}

fn short(text: &Result<String, String>) -> String {
    match text {
        Ok(t) => format!("Ok({} bytes, starts {:?})", t.len(), t.chars().take(40).collect::<String>()),
        Err(e) => format!("Err({e})"),
    }
}

/// Compact list of differences (the full snapshots are far too large to print).
fn differences(expected: &Snapshot, got: &Snapshot) -> Vec<String> {
    let mut out = Vec::new();
    if expected.frames.len() != got.frames.len() {
        out.push(format!(
            "frame count: expected {}, got {}",
            expected.frames.len(),
            got.frames.len()
        ));
    }
    for (id, (e, g)) in expected.frames.iter().zip(&got.frames).enumerate() {
        if e != g {
            out.push(format!(
                "frame {id} ({:?}): expected text {} payload {}, got text {} payload {}",
                e.0,
                short(&e.2),
                short(&e.3),
                short(&g.2),
                short(&g.3)
            ));
        }
    }
    if expected.timeline != got.timeline {
        out.push("timeline differs".to_string());
    }
    for (e, g) in expected.lex.iter().zip(&got.lex) {
        if e != g {
            out.push(format!("search {:?}: expected {:?}, got {:?}", e.0, e.1, g.1));
        }
    }
    out
}

#[test]
fn presized_batch_on_populated_memory_equals_plain_puts() {
    let dir = TempDir::new().unwrap();

    // Reference: plain puts, two commits.
    let ref_path = dir.path().join("plain.mv2");
    let expected = {
        let mut mem = Memvid::create(&ref_path).unwrap();
        for i in 0..FIRST {
            put(&mut mem, i);
        }
        mem.commit().unwrap();
        for i in FIRST..TOTAL {
            put(&mut mem, i);
        }
        mem.commit().unwrap();
        snapshot(&mut mem)
    };
    for (_, _, text, payload) in &expected.frames {
        assert!(text.is_ok(), "reference frame unreadable: {text:?}");
        assert!(payload.is_ok(), "reference payload unreadable: {payload:?}");
    }

    // Bulk path: the first documents are committed normally, the rest go through a batch that
    // pre-sizes the WAL.
    let bulk_path = dir.path().join("bulk.mv2");
    let got = {
        let mut mem = Memvid::create(&bulk_path).unwrap();
        for i in 0..FIRST {
            put(&mut mem, i);
        }
        mem.commit().unwrap();

        let wal_before = mem.stats().unwrap().wal_bytes;
        mem.begin_batch(PutManyOpts {
            wal_pre_size_bytes: 2 * wal_before,
            ..Default::default()
        })
        .unwrap();
        let wal_after = mem.stats().unwrap().wal_bytes;
        println!("WAL region: {wal_before} -> {wal_after} bytes");
        assert!(wal_after > wal_before, "the batch did not pre-size the WAL");
        for i in FIRST..TOTAL {
            put(&mut mem, i);
        }
        mem.end_batch().unwrap();
        mem.commit().unwrap();
        snapshot(&mut mem)
    };
    let diff = differences(&expected, &got);
    assert!(
        diff.is_empty(),
        "batch path differs from plain puts (same session), {} differences, first ones:\n{}",
        diff.len(),
        diff.iter().take(6).cloned().collect::<Vec<_>>().join("\n")
    );

    let got_reopened = {
        let mut mem = Memvid::open(&bulk_path).unwrap();
        snapshot(&mut mem)
    };
    let diff = differences(&expected, &got_reopened);
    assert!(
        diff.is_empty(),
        "batch path differs from plain puts (after reopen), {} differences, first ones:\n{}",
        diff.len(),
        diff.iter().take(6).cloned().collect::<Vec<_>>().join("\n")
    );
}
