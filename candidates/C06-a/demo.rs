//! Demo for mutant C06/A.
//!
//! next_frame_id() called before a put must equal the id that document receives, also when one
//! of the earlier puts crossed the WAL occupancy threshold and was checkpointed automatically
//! (no explicit commit by the caller).

use memvid_core::{Memvid, PutOptions};
use tempfile::TempDir;

fn body(i: usize) -> Vec<u8> {
    // ~1.5 KiB of low-redundancy text: stays below the chunking threshold (one frame per put)
    // but fills the 64 KiB embedded WAL after a few dozen uncommitted puts.
    let mut text = format!("document number {i} ");
    let mut state = (i as u64).wrapping_mul(0x9E37_79B9_7F4A_7C15) | 1;
    while text.len() < 1500 {
        state ^= state << 13;
        state ^= state >> 7;
        state ^= state << 17;
        text.push_str(&format!("w{:x} ", state & 0xffff_ffff));
    }
    text.into_bytes()
}

#[test]
fn next_frame_id_matches_assigned_id_across_auto_checkpoint() {
    let dir = TempDir::new().unwrap();
    let path = dir.path().join("demo_a.mv2");
    let mut mem = Memvid::create(&path).unwrap();

    let mut predicted: Vec<(String, u64)> = Vec::new();
    let mut saw_auto_checkpoint = false;

    for i in 0..120 {
        let uri = format!("mv2://demo/doc-{i}");
        let before = mem.frame_count();
        let id = mem.next_frame_id();
        assert_eq!(
            id,
            predicted.len() as u64,
            "next_frame_id() before put #{i} should equal the number of frames put so far \
             (auto checkpoint seen: {saw_auto_checkpoint})"
        );
        let opts = PutOptions {
            uri: Some(uri.clone()),
            search_text: Some(format!("doc {i}")),
            auto_tag: false,
            extract_dates: false,
            extract_triplets: false,
            ..Default::default()
        };
        mem.put_bytes_with_options(&body(i), opts).unwrap();
        predicted.push((uri, id));
        if mem.frame_count() > before {
            // frames were materialised although we never called commit(): auto checkpoint
            saw_auto_checkpoint = true;
        }
    }
    assert!(
        saw_auto_checkpoint,
        "test did not exercise the WAL auto-checkpoint path"
    );

    mem.commit().unwrap();
    for (uri, id) in &predicted {
        let frame = mem.frame_by_uri(uri).unwrap();
        assert_eq!(frame.id, *id, "predicted id for {uri}");
        assert_eq!(mem.frame_by_id(*id).unwrap().uri.as_deref(), Some(uri.as_str()));
    }
}
