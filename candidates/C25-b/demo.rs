//! C25 demo B: an accepted ticket's sequence number must survive reopen, including a reopen
//! after the process died with an uncommitted put still sitting in the WAL.
//!
//! History: ticket seq 3 -> put (not committed) -> ticket seq 7 (acknowledged) -> power cut
//! (simulated by copying the file bytes as they are on disk at that instant) -> open the copy
//! -> ticket seq 5 must be refused, because 7 was already accepted on this memory.

#![allow(deprecated)]

use memvid_core::{Memvid, MemvidError, Ticket};

const MIB: u64 = 1024 * 1024;

#[test]
fn accepted_ticket_survives_crash_with_pending_put() {
    let dir = tempfile::tempdir().unwrap();
    let path = dir.path().join("live.mv2");
    let crashed = dir.path().join("crashed.mv2");

    let mut mem = Memvid::create(&path).unwrap();
    mem.apply_ticket(Ticket::new("issuer", 3).capacity_bytes(64 * MIB))
        .unwrap();
    mem.commit().unwrap();

    // An uncommitted put, then a newer ticket that is acknowledged to the caller.
    mem.put_bytes(b"pending frame, not yet committed").unwrap();
    mem.apply_ticket(Ticket::new("issuer", 7).capacity_bytes(128 * MIB))
        .expect("seq 7 > 3 must be accepted");
    assert_eq!(mem.stats().unwrap().seq_no, Some(7));
    assert_eq!(mem.get_capacity(), 128 * MIB);

    // Power cut: whatever is in the file right now is all that survives. No commit, no Drop.
    std::fs::copy(&path, &crashed).unwrap();

    let mut reopened = Memvid::open(&crashed).unwrap();
    // The put was in the WAL and is recovered ...
    assert_eq!(reopened.stats().unwrap().frame_count, 1, "WAL put recovered");
    // ... and so must be the acknowledged ticket.
    assert_eq!(
        reopened.stats().unwrap().seq_no,
        Some(7),
        "acknowledged ticket seq 7 lost across reopen"
    );
    assert_eq!(reopened.get_capacity(), 128 * MIB);

    // Replay of an older ticket must be refused.
    let res = reopened.apply_ticket(Ticket::new("issuer", 5).capacity_bytes(512 * MIB));
    assert!(
        matches!(res, Err(MemvidError::TicketSequence { .. })),
        "ticket seq 5 accepted after seq 7 had been accepted: {res:?}"
    );
    assert_eq!(reopened.stats().unwrap().seq_no, Some(7));
    assert_eq!(reopened.get_capacity(), 128 * MIB);

    drop(reopened);
    drop(mem);
}

/// Control: the same history without the pending put behaves identically on both trees.
#[test]
fn accepted_ticket_survives_crash_when_clean() {
    let dir = tempfile::tempdir().unwrap();
    let path = dir.path().join("live.mv2");
    let crashed = dir.path().join("crashed.mv2");

    let mut mem = Memvid::create(&path).unwrap();
    mem.apply_ticket(Ticket::new("issuer", 3)).unwrap();
    mem.commit().unwrap();
    mem.apply_ticket(Ticket::new("issuer", 7).capacity_bytes(128 * MIB))
        .unwrap();
    std::fs::copy(&path, &crashed).unwrap();

    let mut reopened = Memvid::open(&crashed).unwrap();
    assert_eq!(reopened.stats().unwrap().seq_no, Some(7));
    let res = reopened.apply_ticket(Ticket::new("issuer", 5));
    assert!(matches!(res, Err(MemvidError::TicketSequence { .. })));
}
