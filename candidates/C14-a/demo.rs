//! C14 demo A: an update that supplies a NEW embedding for a frame that already has one
//! must index the new frame under the embedding it was given.

use memvid_core::{Memvid, PutOptions};
use tempfile::tempdir;

#[test]
fn update_with_explicit_embedding_replaces_indexed_vector() {
    let dir = tempdir().expect("tmp");
    let path = dir.path().join("c14a.mv2");

    let old_a = vec![1.0f32, 0.0, 0.0, 0.0];
    let other = vec![0.0f32, 1.0, 0.0, 0.0];
    let new_a = vec![0.0f32, 0.0, 0.0, 1.0];

    let mut mem = Memvid::create(&path).expect("create");
    mem.put_with_embedding(b"alpha document", old_a.clone())
        .expect("put a");
    mem.put_with_embedding(b"beta document", other.clone())
        .expect("put b");
    mem.commit().expect("commit 1");

    // Re-embed frame 0 together with a payload change.
    mem.update_frame(
        0,
        Some(b"alpha document, revised".to_vec()),
        PutOptions::default(),
        Some(new_a.clone()),
    )
    .expect("update");
    mem.commit().expect("commit 2");

    let check = |mem: &mut Memvid, when: &str| {
        // The update created frame 2 (superseding frame 0).
        let stored = mem.frame_embedding(2).expect("frame_embedding");
        assert_eq!(
            stored.as_deref(),
            Some(new_a.as_slice()),
            "{when}: updated frame must carry the embedding it was given"
        );
        assert_eq!(
            mem.frame_embedding(0).expect("frame_embedding old"),
            None,
            "{when}: superseded frame must not stay in the vector index"
        );
        let hits = mem.search_vec(&new_a, 10).expect("search");
        let ids: Vec<u64> = hits.iter().map(|h| h.frame_id).collect();
        assert_eq!(ids.len(), 2, "{when}: exactly two embedded active frames");
        assert_eq!(hits[0].frame_id, 2, "{when}: nearest to new embedding");
        assert!(
            hits[0].distance < 1e-6,
            "{when}: exact match expected, got distance {}",
            hits[0].distance
        );
        // The old embedding must no longer be an exact match for anything.
        let hits_old = mem.search_vec(&old_a, 10).expect("search old");
        assert!(
            hits_old.iter().all(|h| h.distance > 0.5),
            "{when}: old embedding still indexed: {hits_old:?}"
        );
    };

    check(&mut mem, "after commit");
    drop(mem);
    let mut reopened = Memvid::open(&path).expect("reopen");
    check(&mut reopened, "after reopen");
}
