//! Demonstration for mutant C09/a.
//!
//! Input: a corpus of 26 short documents (more than the 20 documents the lexical engine
//! fetches for top_k = 5). Three documents, two of them among the most recently stored ones,
//! mention a 48-character identifier (a truncated hex digest). The single-word query is that
//! identifier.
//!
//! The identifier occurs as a whole word in the searchable text of exactly three active
//! frames (ids 3, 21 and 25) and 3 <= top_k, so the search must return all three of them,
//! with and without the sketch pre-filter, before and after a reopen.

use memvid_core::{Memvid, PutOptions, SearchRequest};
use tempfile::TempDir;

const DIGEST: &str = "9f86d081884c7d659a2feaa0c55ad015a3bf4f1b2b0b822c";
const TOP_K: usize = 5;

const WORDS: [&str; 26] = [
    "amber", "basalt", "cedar", "delta", "ember", "fjord", "garnet", "harbor", "indigo", "juniper",
    "kelp", "lagoon", "meadow", "nectar", "onyx", "prairie", "quartz", "ridge", "summit", "tundra",
    "umber", "valley", "willow", "yarrow", "zephyr", "anchor",
];

fn request(query: &str, no_sketch: bool) -> SearchRequest {
    SearchRequest {
        query: query.to_string(),
        top_k: TOP_K,
        snippet_chars: 200,
        uri: None,
        scope: None,
        cursor: None,
        #[cfg(feature = "temporal_track")]
        temporal: None,
        as_of_frame: None,
        as_of_ts: None,
        no_sketch,
        acl_context: None,
        acl_enforcement_mode: memvid_core::types::AclEnforcementMode::Audit,
    }
}

fn hit_frames(mem: &mut Memvid, query: &str, no_sketch: bool) -> Vec<u64> {
    let response = mem.search(request(query, no_sketch)).expect("search");
    let mut ids: Vec<u64> = response.hits.iter().map(|hit| hit.frame_id).collect();
    ids.sort_unstable();
    ids.dedup();
    ids
}

#[test]
fn long_identifier_is_found_in_a_corpus_larger_than_the_fetch_limit() {
    let dir = TempDir::new().unwrap();
    let path = dir.path().join("demo.mv2");
    let expected: Vec<u64> = vec![3, 21, 25];

    {
        let mut mem = Memvid::create(&path).unwrap();
        mem.enable_lex().unwrap();
        for (i, word) in WORDS.iter().enumerate() {
            let text = if expected.contains(&(i as u64)) {
                format!("{word} artifact checksum {DIGEST} verified")
            } else {
                format!("{word} artifact checksum pending")
            };
            let opts = PutOptions {
                uri: Some(format!("mv2://demo/{i}")),
                search_text: Some(text.clone()),
                auto_tag: false,
                extract_dates: false,
                extract_triplets: false,
                ..Default::default()
            };
            mem.put_bytes_with_options(text.as_bytes(), opts).unwrap();
        }
        mem.commit().unwrap();

        // An ordinary word is found either way (sanity check of the corpus).
        assert_eq!(hit_frames(&mut mem, "zephyr", true), vec![24]);

        assert_eq!(
            hit_frames(&mut mem, DIGEST, true),
            expected,
            "fresh handle, pre-filter disabled"
        );
        assert_eq!(
            hit_frames(&mut mem, DIGEST, false),
            expected,
            "fresh handle, default options"
        );
    }

    let mut mem = Memvid::open(&path).unwrap();
    assert_eq!(
        hit_frames(&mut mem, DIGEST, true),
        expected,
        "after reopen, pre-filter disabled"
    );
    assert_eq!(
        hit_frames(&mut mem, DIGEST, false),
        expected,
        "after reopen, default options"
    );
}
