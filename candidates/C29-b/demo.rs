//! C29 demo B: swapping two (equally sized) encrypted chunks of a capsule must make unlock
//! fail; it must never produce a plaintext that differs from the original.
#![cfg(feature = "encryption")]

use memvid_core::encryption::{Mv2eHeader, lock_file, unlock_file};
use std::fs;
use tempfile::TempDir;

const MIB: usize = 1024 * 1024;

fn synthetic_mv2(len: usize) -> Vec<u8> {
    let mut out = Vec::with_capacity(len);
    out.extend_from_slice(b"MV2\0");
    let mut x: u64 = 0xD1B5_4A32_D192_ED03;
    while out.len() < len {
        x ^= x << 13;
        x ^= x >> 7;
        x ^= x << 17;
        out.extend_from_slice(&x.to_le_bytes());
    }
    out.truncate(len);
    out
}

/// Splits the framed body `[len u32 LE][ciphertext]...` into whole frames (prefix included).
fn frames(body: &[u8]) -> Vec<Vec<u8>> {
    let mut out = Vec::new();
    let mut at = 0usize;
    while at < body.len() {
        let len = u32::from_le_bytes(body[at..at + 4].try_into().unwrap()) as usize;
        out.push(body[at..at + 4 + len].to_vec());
        at += 4 + len;
    }
    assert_eq!(at, body.len());
    out
}

#[test]
fn reordered_chunks_are_rejected() {
    let dir = TempDir::new().unwrap();
    let plain = dir.path().join("f.mv2");
    let capsule = dir.path().join("f.mv2e");
    let restored = dir.path().join("restored.mv2");

    // 3 MiB + 1000 bytes: chunks 0,1,2 are full, chunk 3 is the short tail.
    let original = synthetic_mv2(3 * MIB + 1000);
    fs::write(&plain, &original).unwrap();
    lock_file(&plain, Some(capsule.as_path()), b"pw").expect("lock");

    // Sanity: the untouched capsule round-trips.
    unlock_file(&capsule, Some(restored.as_path()), b"pw").expect("unlock of intact capsule");
    assert_eq!(fs::read(&restored).unwrap(), original);
    fs::remove_file(&restored).unwrap();

    let bytes = fs::read(&capsule).unwrap();
    let (header, body) = bytes.split_at(Mv2eHeader::SIZE);
    let mut fr = frames(body);
    assert_eq!(fr.len(), 4);
    assert_eq!(fr[1].len(), fr[2].len());
    fr.swap(1, 2);

    let mut tampered_bytes = header.to_vec();
    for f in &fr {
        tampered_bytes.extend_from_slice(f);
    }
    assert_eq!(tampered_bytes.len(), bytes.len());
    assert_ne!(tampered_bytes, bytes);
    let tampered = dir.path().join("tampered.mv2e");
    fs::write(&tampered, &tampered_bytes).unwrap();

    let result = unlock_file(&tampered, Some(restored.as_path()), b"pw");
    let written = fs::read(&restored).ok();
    if let Some(w) = &written {
        assert!(
            *w == original,
            "unlock of a capsule with reordered chunks wrote a plaintext ({} bytes) that differs from the original; result = {:?}",
            w.len(),
            result
        );
    }
    assert!(
        result.is_err(),
        "unlock accepted a capsule whose chunks were reordered: {:?}",
        result
    );
}
