//! C20 demo B: a single flipped byte inside the committed TOC body must never be served
//! silently by a writable `Memvid::open`.
//!
//! The file is committed and closed, then one bit of a frame's `search_text` stored in the
//! TOC is flipped. The commit footer hash no longer matches, so `open` falls back to TOC
//! recovery (decode from the header's TOC offset). The recovered TOC must still be checked
//! against its own checksum: `open` has to fail, or everything it serves must equal what was
//! committed.

use memvid_core::{Memvid, PutOptions};
use std::fs;
use tempfile::TempDir;

const DOCS: usize = 3;

fn doc_text(i: usize) -> String {
    format!("document number {i} mentions QUOKKAWORD{i} and other words")
}

fn find(hay: &[u8], needle: &[u8], from: usize) -> Option<usize> {
    hay[from..]
        .windows(needle.len())
        .position(|w| w == needle)
        .map(|p| p + from)
}

#[test]
fn toc_body_flip_is_not_served_by_writable_open() {
    let dir = TempDir::new().unwrap();
    let path = dir.path().join("clean.mv2");
    {
        let mut mem = Memvid::create(&path).unwrap();
        for i in 0..DOCS {
            let opts = PutOptions {
                uri: Some(format!("mv2://doc{i}")),
                title: Some(format!("Title {i}")),
                ..Default::default()
            };
            mem.put_bytes_with_options(doc_text(i).as_bytes(), opts)
                .unwrap();
        }
        mem.commit().unwrap();
    }

    // What was committed, as served by a clean open.
    let committed: Vec<(String, Option<String>, String)> = {
        let mut mem = Memvid::open_read_only(&path).unwrap();
        (0..DOCS)
            .map(|i| {
                let frame = mem.frame_by_uri(&format!("mv2://doc{i}")).unwrap();
                let text = mem.frame_text_by_id(frame.id).unwrap();
                (frame.uri.clone().unwrap(), frame.title.clone(), text)
            })
            .collect()
    };

    let clean = fs::read(&path).unwrap();
    // Header bytes 8..16: offset of the TOC; the file ends with the 56-byte commit footer.
    let toc_off = u64::from_le_bytes(clean[8..16].try_into().unwrap()) as usize;
    let marker = b"QUOKKAWORD1";
    let pos = find(&clean, marker, toc_off).expect("search_text of doc1 inside the TOC");
    assert!(pos + marker.len() <= clean.len() - 56);

    let mut silently_served = Vec::new();
    for k in 0..marker.len() {
        let mut bad = clean.clone();
        bad[pos + k] ^= 0x01;
        let victim = dir.path().join(format!("flip{k}.mv2"));
        fs::write(&victim, &bad).unwrap();

        let Ok(mut mem) = Memvid::open(&victim) else {
            continue; // detected: fine
        };
        for (i, (uri, title, text)) in committed.iter().enumerate() {
            let got = mem.frame_by_uri(uri).and_then(|frame| {
                let t = mem.frame_text_by_id(frame.id)?;
                Ok((frame.title.clone(), t))
            });
            match got {
                Err(_) => {} // an error is an acceptable outcome
                Ok((got_title, got_text)) => {
                    if &got_title != title || &got_text != text {
                        silently_served.push(format!(
                            "flip at toc byte {} -> doc{i} text {:?}",
                            pos + k - toc_off,
                            got_text
                        ));
                    }
                }
            }
        }
    }
    assert!(
        silently_served.is_empty(),
        "open() served a corrupted TOC without any error:\n{}",
        silently_served.join("\n")
    );
}
