//! C25 demo A: a signed ticket must name the memory this file is bound to.
//!
//! The only genuine control-plane signature available offline is the one pinned in
//! `src/signature.rs` (memory 69601cef-..., seq 9, 10 GiB). Presenting that ticket, byte for
//! byte untampered, to a file bound to a *different* memory must be rejected and must leave
//! the ticket state untouched.

use memvid_core::types::{MemoryBinding, SignedTicket};
use memvid_core::{Memvid, MemvidError};
use uuid::Uuid;

const SIGNED_FOR: &str = "69601cef-bea5-7ba3-fec3-9b5c00000000";
const SIG_B64: &str =
    "OUVSB4rKCSPDlP+rrZN1AlkI6k2zDdNaZb5HKPZDTjqhnCHBYKXg4lyEE4aevDN7rLpdFjINiCCaBEBaH35vDw==";
const TEN_GIB: u64 = 10_737_418_240;

fn dashboard_ticket() -> SignedTicket {
    let json = format!(
        r#"{{"issuer":"memvid-dashboard","seq_no":9,"expires_in_secs":86400,"capacity_bytes":{TEN_GIB},"memory_id":"{SIGNED_FOR}","signature":"{SIG_B64}"}}"#
    );
    serde_json::from_str(&json).expect("signed ticket json")
}

fn binding(id: Uuid) -> MemoryBinding {
    MemoryBinding {
        memory_id: id,
        memory_name: "demo".into(),
        bound_at: chrono::Utc::now(),
        api_url: "https://example.invalid".into(),
    }
}

#[test]
fn genuine_ticket_is_accepted_on_the_memory_it_names() {
    let dir = tempfile::tempdir().unwrap();
    let path = dir.path().join("own.mv2");
    let mut mem = Memvid::create(&path).unwrap();
    mem.set_memory_binding_only(binding(Uuid::parse_str(SIGNED_FOR).unwrap()))
        .unwrap();
    mem.apply_signed_ticket(dashboard_ticket()).unwrap();
    assert_eq!(mem.stats().unwrap().seq_no, Some(9));
    assert_eq!(mem.get_capacity(), TEN_GIB);
}

#[test]
fn ticket_signed_for_another_memory_is_rejected() {
    let dir = tempfile::tempdir().unwrap();
    let path = dir.path().join("other.mv2");
    let other = Uuid::parse_str("11111111-2222-4333-8444-555555555555").unwrap();

    let mut mem = Memvid::create(&path).unwrap();
    mem.set_memory_binding_only(binding(other)).unwrap();
    mem.commit().unwrap();

    let before = mem.stats().unwrap();
    let res = mem.apply_signed_ticket(dashboard_ticket());
    let after = mem.stats().unwrap();

    assert!(
        matches!(res, Err(MemvidError::TicketSignatureInvalid { .. })),
        "ticket naming memory {SIGNED_FOR} was applied to a file bound to {other}: {res:?}"
    );
    assert_eq!(after.seq_no, before.seq_no, "rejected ticket changed seq_no");
    assert_eq!(
        after.capacity_bytes, before.capacity_bytes,
        "rejected ticket changed capacity"
    );

    // ... and nothing leaked to disk either.
    drop(mem);
    let reopened = Memvid::open(&path).unwrap();
    assert_eq!(reopened.stats().unwrap().seq_no, before.seq_no);
    assert_eq!(reopened.get_capacity(), before.capacity_bytes);
    assert_eq!(reopened.get_memory_binding().unwrap().memory_id, other);
}
