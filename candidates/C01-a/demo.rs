//! Demo for mutant C01/A: acknowledged puts that are still pending (not yet committed) when
//! the embedded WAL write head reaches the end of the 64 KiB region must not be lost.
//!
//! History: rounds of "5 small puts, then commit". Every commit moves the checkpoint forward,
//! so after a few rounds the write head approaches the end of the region while a couple of
//! uncommitted records of the current round are pending. The next put of that round does not
//! fit before the region end. The correct behaviour is to grow the region; wrapping the head to
//! offset 0 hides the pending records behind the new end-of-log sentinel.

use memvid_core::{Memvid, PutOptions};

fn body(i: usize) -> String {
    // Deterministic, poorly compressible text (~900 chars; below the chunking threshold).
    let mut state = (i as u64).wrapping_mul(0x9E37_79B9_7F4A_7C15) ^ 0xD1B5_4A32_D192_ED03;
    let mut out = format!("document number {i} ");
    while out.len() < 900 {
        state ^= state << 13;
        state ^= state >> 7;
        state ^= state << 17;
        out.push_str(&format!("{:016x} ", state));
    }
    out
}

#[test]
fn pending_puts_survive_wal_region_end() {
    let dir = tempfile::tempdir().expect("tmp");
    let path = dir.path().join("demo_a.mv2");

    let mut expected: Vec<String> = Vec::new();
    {
        let mut mem = Memvid::create(&path).expect("create");
        for round in 0..8 {
            for _ in 0..5 {
                let i = expected.len();
                let text = body(i);
                let opts = PutOptions {
                    uri: Some(format!("mv2://demo/{i}")),
                    title: Some(format!("doc {i}")),
                    ..Default::default()
                };
                mem.put_bytes_with_options(text.as_bytes(), opts)
                    .expect("put acknowledged");
                expected.push(text);
            }
            mem.commit().expect("commit");
            assert_eq!(
                mem.frame_count(),
                expected.len(),
                "round {round}: commit must materialise every acknowledged put"
            );
        }
    }

    let mut mem = Memvid::open(&path).expect("reopen");
    assert_eq!(mem.frame_count(), expected.len(), "frame count after reopen");
    for (i, text) in expected.iter().enumerate() {
        let frame = mem.frame_by_id(i as u64).expect("frame");
        assert_eq!(frame.uri.as_deref(), Some(format!("mv2://demo/{i}").as_str()));
        let payload = mem.frame_canonical_payload(i as u64).expect("payload");
        assert_eq!(payload, text.as_bytes(), "content of frame {i}");
    }
}
