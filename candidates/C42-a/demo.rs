//! C42 demo A: vacuum after a payload-reusing (metadata-only) update of a frame that is not
//! the last one must keep every active frame's content and leave a file that verifies.

use memvid_core::{FrameStatus, Memvid, PutOptions, SearchRequest, VerificationStatus};
use tempfile::TempDir;

fn body(tag: &str) -> Vec<u8> {
    format!(
        "{tag} document body: the quick brown fox jumps over the lazy dog near the {tag} river bank"
    )
    .into_bytes()
}

fn search_ids(mem: &mut Memvid, query: &str) -> Vec<u64> {
    let response = mem
        .search(SearchRequest {
            query: query.to_string(),
            top_k: 10,
            snippet_chars: 80,
            uri: None,
            scope: None,
            cursor: None,
            as_of_frame: None,
            as_of_ts: None,
            no_sketch: false,
            acl_context: None,
            acl_enforcement_mode: memvid_core::types::AclEnforcementMode::Audit,
        })
        .unwrap();
    response.hits.iter().map(|h| h.frame_id).collect()
}

#[test]
fn vacuum_after_payload_reusing_update_keeps_content() {
    let dir = TempDir::new().unwrap();
    let path = dir.path().join("c42a.mv2");

    let mut mem = Memvid::create(&path).unwrap();
    mem.enable_lex().unwrap();
    for tag in ["alpha", "bravo", "charlie"] {
        let opts = PutOptions::builder()
            .uri(format!("mv2://{tag}"))
            .title(tag.to_string())
            .build();
        mem.put_bytes_with_options(&body(tag), opts).unwrap();
    }
    mem.commit().unwrap();

    // Metadata-only update of frame 1 (payload = None -> the new frame reuses the stored payload).
    let opts = PutOptions::builder().title("bravo (renamed)").build();
    mem.update_frame(1, None, opts, None).unwrap();
    mem.commit().unwrap();

    // Expected state: 0 active, 1 superseded, 2 active, 3 active (reuses payload of 1).
    let mut before = Vec::new();
    for id in 0..4u64 {
        let frame = mem.frame_by_id(id).unwrap();
        let content = if frame.status == FrameStatus::Active {
            Some(mem.frame_canonical_payload(id).unwrap())
        } else {
            None
        };
        before.push((frame.status, frame.title.clone(), frame.uri.clone(), content));
    }
    assert_eq!(before[1].0, FrameStatus::Superseded);
    assert_eq!(before[3].3.as_deref(), Some(body("bravo").as_slice()));

    let hits_before = search_ids(&mut mem, "bravo");
    assert_eq!(hits_before, vec![3]);

    // Do not stop at a vacuum error: the interesting part is what is left on disk.
    let vacuum_result = mem.vacuum();
    if let Err(err) = &vacuum_result {
        eprintln!("vacuum returned an error: {err}");
    }
    drop(mem);

    let report = Memvid::verify(&path, true).unwrap();
    assert_eq!(
        report.overall_status,
        VerificationStatus::Passed,
        "verify after vacuum: {:?}",
        report.checks
    );

    let mut mem = Memvid::open(&path).unwrap();
    for id in 0..4u64 {
        let frame = mem.frame_by_id(id).unwrap();
        let (status, title, uri, content) = &before[id as usize];
        assert_eq!(&frame.status, status, "status of frame {id}");
        assert_eq!(&frame.title, title, "title of frame {id}");
        assert_eq!(&frame.uri, uri, "uri of frame {id}");
        if let Some(expected) = content {
            let got = mem
                .frame_canonical_payload(id)
                .unwrap_or_else(|e| panic!("content of frame {id} unreadable after vacuum: {e}"));
            assert_eq!(&got, expected, "content of frame {id} changed by vacuum");
        }
    }
    let hits = search_ids(&mut mem, "bravo");
    assert_eq!(hits, hits_before, "search results changed by vacuum");
    vacuum_result.expect("vacuum must succeed");
}
