//! C27 demo B: every card accepted by `put_memory_card` survives commit, close and reopen,
//! including a card that only produced a schema *warning* (non-strict mode, the default).

use memvid_core::{MemoryCard, MemoryCardBuilder, Memvid};
use tempfile::TempDir;

fn card(slot: &str, value: &str, document_date: i64) -> MemoryCard {
    MemoryCardBuilder::new()
        .fact()
        .entity("user")
        .slot(slot)
        .value(value)
        .document_date(document_date)
        .source(0, None)
        .engine("demo", "1.0.0")
        .build(0)
        .unwrap()
}

fn snapshot(mem: &Memvid) -> Vec<(u64, String, String, String, Option<i64>)> {
    mem.memories()
        .cards()
        .iter()
        .map(|c| {
            (
                c.id,
                c.entity.clone(),
                c.slot.clone(),
                c.value.clone(),
                c.document_date,
            )
        })
        .collect()
}

#[test]
fn card_with_schema_warning_survives_commit_and_reopen() {
    let dir = TempDir::new().unwrap();
    let path = dir.path().join("c27b.mv2");

    // Session 1: ordinary cards, committed.
    {
        let mut mem = Memvid::create(&path).unwrap();
        assert!(!mem.is_schema_strict());
        mem.put_memory_card(card("employer", "Anthropic", 1_000))
            .unwrap();
        mem.put_memory_card(card("age", "41", 1_000)).unwrap();
        mem.commit().unwrap();
    }

    // Session 2: the only change is a card whose value does not match the built-in schema of
    // its slot ("age" is numeric). In non-strict mode it is accepted with a warning.
    let expected;
    {
        let mut mem = Memvid::open(&path).unwrap();
        assert_eq!(mem.memory_card_count(), 2);
        let c = card("age", "forty-two", 2_000);
        assert!(mem.validate_card(&c).is_err(), "the card must trip a schema warning");
        mem.put_memory_card(c).expect("non-strict mode accepts it");
        assert_eq!(
            mem.get_current_memory("user", "age").unwrap().value,
            "forty-two"
        );
        expected = snapshot(&mem);
        assert_eq!(expected.len(), 3);
        mem.commit().unwrap();
        // closed here
    }

    // Session 3: the card set is what it was before commit/close.
    let mem = Memvid::open(&path).unwrap();
    assert_eq!(snapshot(&mem), expected, "card set changed across commit + reopen");
    assert_eq!(
        mem.get_current_memory("user", "age").unwrap().value,
        "forty-two"
    );
    assert_eq!(
        mem.get_memory_at_time("user", "age", 1_500).unwrap().value,
        "41"
    );
}
