//! Demo for C31 mutant A: a footer whose length field reaches past the start of the
//! scanned bytes must never be returned, even if its hash happens to cover the bytes
//! that are actually there.

use memvid_core::footer::{CommitFooter, FOOTER_SIZE, find_last_valid_footer};

fn footer_for(toc: &[u8], toc_len: u64, generation: u64) -> [u8; FOOTER_SIZE] {
    CommitFooter {
        toc_len,
        toc_hash: *blake3::hash(toc).as_bytes(),
        generation,
    }
    .encode()
}

/// Naive reference: try every offset from the end, accept only fully consistent footers.
fn reference_scan(bytes: &[u8]) -> Option<(usize, usize, u64)> {
    if bytes.len() < FOOTER_SIZE {
        return None;
    }
    for pos in (0..=bytes.len() - FOOTER_SIZE).rev() {
        let Some(footer) = CommitFooter::decode(&bytes[pos..pos + FOOTER_SIZE]) else {
            continue;
        };
        let Ok(len) = usize::try_from(footer.toc_len) else {
            continue;
        };
        if len == 0 || len > pos {
            continue;
        }
        if footer.hash_matches(&bytes[pos - len..pos]) {
            return Some((pos, pos - len, footer.generation));
        }
    }
    None
}

fn check(bytes: &[u8]) {
    let expected = reference_scan(bytes);
    let got = find_last_valid_footer(bytes);
    if let Some(slice) = &got {
        assert_eq!(
            slice.toc_bytes.len() as u64,
            slice.footer.toc_len,
            "returned TOC bytes are not the bytes the footer describes"
        );
        assert_eq!(slice.toc_bytes, &bytes[slice.toc_offset..slice.footer_offset]);
    }
    assert_eq!(
        got.map(|s| (s.footer_offset, s.toc_offset, s.footer.generation)),
        expected
    );
}

#[test]
fn oversized_length_at_buffer_start_is_not_a_commit() {
    // The TOC sits at the very start of the buffer and the footer's length field has been
    // damaged upwards (one flipped bit): the footer now claims more bytes than exist in
    // front of it. Nothing else in the buffer is a commit -> the scan must return None.
    let toc = b"toc-bytes-of-the-only-commit".to_vec();
    let mut bytes = toc.clone();
    bytes.extend_from_slice(&footer_for(&toc, toc.len() as u64 | 0x100, 3));
    bytes.extend_from_slice(&[0u8; 19]);
    assert_eq!(reference_scan(&bytes), None);
    check(&bytes);
}

#[test]
fn oversized_length_must_not_shadow_older_commit() {
    // gen 1 commit, followed by a later footer whose hash covers everything in front of it
    // (i.e. the whole prefix) but whose length field is larger than that prefix.
    let toc1 = vec![0x11u8; 40];
    let mut bytes = toc1.clone();
    bytes.extend_from_slice(&footer_for(&toc1, toc1.len() as u64, 1));
    bytes.extend_from_slice(&[0x22u8; 30]);
    let prefix = bytes.clone();
    bytes.extend_from_slice(&footer_for(&prefix, prefix.len() as u64 + 4096, 2));
    let expected = reference_scan(&bytes).expect("gen 1 is valid");
    assert_eq!(expected.2, 1);
    check(&bytes);
}
