//! Demo for mutant C41/a: the enrichment worker polls while a queued document is still
//! pending (put acknowledged, commit not yet done). The task must stay queued until the
//! commit materialises the frame, and the frame must then end up Enriched with no errors.

use std::sync::{Arc, Mutex};
use std::time::{Duration, Instant};

use memvid_core::enrichment_worker::EnrichmentWorkerConfig;
use memvid_core::types::EnrichmentState;
use memvid_core::{Memvid, PutOptions, start_enrichment_worker};
use tempfile::TempDir;

#[test]
fn worker_poll_between_put_and_commit_keeps_task_queued() {
    let dir = TempDir::new().unwrap();
    let path = dir.path().join("demo.mv2");

    let mut mem = Memvid::create(&path).unwrap();
    // An ordinary, already-enriched document so the frame table is not empty.
    let plain = PutOptions {
        uri: Some("mv2://plain".to_string()),
        search_text: Some("plain document about gardening".to_string()),
        ..Default::default()
    };
    mem.put_bytes_with_options(b"plain document about gardening", plain)
        .unwrap();
    mem.commit().unwrap();
    assert_eq!(mem.enrichment_queue_len(), 0);

    let shared = Arc::new(Mutex::new(mem));
    let config = EnrichmentWorkerConfig {
        task_delay_ms: 5, // idle poll every 50 ms
        ..Default::default()
    };
    let handle = start_enrichment_worker(Arc::clone(&shared), Some(config));

    // Foreground: put a document that needs enrichment, but do not commit yet.
    let queued_id = {
        let mut mv = shared.lock().unwrap();
        let opts = PutOptions {
            uri: Some("mv2://queued".to_string()),
            search_text: Some("queued document about astronomy".to_string()),
            enable_embedding: true,
            ..Default::default()
        };
        let id = mv.next_frame_id();
        mv.put_bytes_with_options(b"queued document about astronomy", opts)
            .unwrap();
        assert_eq!(mv.enrichment_queue_len(), 1, "put must queue the document");
        id
    };

    // Let the worker poll (every 50 ms) while the document is still pending. A healthy worker
    // leaves the task alone, so this waits the full two seconds; stop early if it took the task.
    let pending_window = Instant::now() + Duration::from_secs(2);
    while Instant::now() < pending_window && handle.stats().frames_processed == 0 {
        std::thread::sleep(Duration::from_millis(20));
    }

    // Foreground commit: the frame now exists.
    shared.lock().unwrap().commit().unwrap();

    // Give the worker time to enrich it (generous: the machine may be heavily loaded).
    let deadline = Instant::now() + Duration::from_secs(60);
    loop {
        {
            let mv = shared.lock().unwrap();
            let frame = mv.frame_by_id(queued_id).unwrap();
            if frame.enrichment_state == EnrichmentState::Enriched
                && mv.enrichment_queue_len() == 0
            {
                break;
            }
            // Task gone but frame not enriched: it was dropped, waiting longer cannot help.
            if mv.enrichment_queue_len() == 0 && handle.stats().errors > 0 {
                break;
            }
        }
        if Instant::now() > deadline {
            break;
        }
        std::thread::sleep(Duration::from_millis(20));
    }

    let stats = handle.stop_and_wait();
    let mv = shared.lock().unwrap();
    let frame = mv.frame_by_id(queued_id).unwrap();
    println!(
        "stats: processed={} errors={} | frame {} state={:?} | queue_len={}",
        stats.frames_processed,
        stats.errors,
        queued_id,
        frame.enrichment_state,
        mv.enrichment_queue_len()
    );
    assert_eq!(stats.errors, 0, "no enrichment task may fail");
    assert_eq!(
        frame.enrichment_state,
        EnrichmentState::Enriched,
        "queued frame must end Enriched"
    );
    assert_eq!(stats.frames_processed, 1, "queued frame processed exactly once");
    assert_eq!(mv.enrichment_queue_len(), 0);
    assert_eq!(mv.frame_count(), 2, "no acknowledged frame lost");
}
