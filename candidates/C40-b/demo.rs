//! C40 demo B: documents with embeddings ingested in several `commit_skip_indexes()` batches,
//! then `finalize_indexes()`. The result must be indistinguishable from plain puts + commit.

use memvid_core::types::AclEnforcementMode;
use memvid_core::{Memvid, PutOptions, SearchRequest, TimelineQuery};
use std::num::NonZeroU64;
use tempfile::TempDir;

const WORDS: [&str; 9] = [
    "aardvark", "bison", "cheetah", "dolphin", "eagle", "falcon", "gazelle", "heron", "ibis",
];

fn doc(i: usize) -> (String, PutOptions, Vec<f32>) {
    let word = WORDS[i];
    let text = format!("Field note number {i}: today we observed the {word} near the river bank.");
    let opts = PutOptions {
        uri: Some(format!("mv2://notes/{i}")),
        title: Some(format!("Note {i}")),
        timestamp: Some(1_700_000_000 + i as i64 * 60),
        ..Default::default()
    };
    let mut emb = vec![0.0f32; 8];
    emb[i % 8] = 1.0;
    emb[(i + 1) % 8] = 0.25 * (i as f32 + 1.0);
    (text, opts, emb)
}

fn put(mem: &mut Memvid, i: usize) {
    let (text, opts, emb) = doc(i);
    mem.put_with_embedding_and_options(text.as_bytes(), emb, opts)
        .unwrap();
}

fn lex_hits(mem: &mut Memvid, query: &str) -> Vec<String> {
    let resp = mem
        .search(SearchRequest {
            query: query.to_string(),
            top_k: 20,
            snippet_chars: 120,
            uri: None,
            scope: None,
            cursor: None,
            #[cfg(feature = "temporal_track")]
            temporal: None,
            as_of_frame: None,
            as_of_ts: None,
            no_sketch: false,
            acl_context: None,
            acl_enforcement_mode: AclEnforcementMode::Audit,
        })
        .unwrap();
    let mut uris: Vec<String> = resp.hits.into_iter().map(|h| h.uri).collect();
    uris.sort();
    uris
}

#[derive(Debug, PartialEq)]
struct Snapshot {
    frames: Vec<(Option<String>, i64, String)>,
    timeline: Vec<(u64, i64)>,
    lex: Vec<(String, Vec<String>)>,
    vec: Vec<Vec<u64>>,
}

fn snapshot(mem: &mut Memvid) -> Snapshot {
    let n = mem.frame_count();
    let mut frames = Vec::new();
    for id in 0..n as u64 {
        let frame = mem.frame_by_id(id).unwrap();
        let text = mem.frame_text_by_id(id).unwrap();
        frames.push((frame.uri.clone(), frame.timestamp, text));
    }
    let timeline = mem
        .timeline(TimelineQuery {
            limit: NonZeroU64::new(100),
            since: None,
            until: None,
            reverse: false,
            #[cfg(feature = "temporal_track")]
            temporal: None,
        })
        .unwrap()
        .into_iter()
        .map(|e| (e.frame_id, e.timestamp))
        .collect();
    let mut lex = Vec::new();
    for word in WORDS.iter().copied().chain(["river", "observed"]) {
        lex.push((word.to_string(), lex_hits(mem, word)));
    }
    let mut vec = Vec::new();
    for i in 0..WORDS.len() {
        let (_, _, emb) = doc(i);
        let hits = mem.search_vec(&emb, 3).unwrap();
        vec.push(hits.into_iter().map(|h| h.frame_id).collect());
    }
    Snapshot {
        frames,
        timeline,
        lex,
        vec,
    }
}

#[test]
fn several_skip_index_batches_then_finalize_equals_plain_puts() {
    let dir = TempDir::new().unwrap();

    // Reference: plain puts, one commit.
    let ref_path = dir.path().join("plain.mv2");
    let expected = {
        let mut mem = Memvid::create(&ref_path).unwrap();
        for i in 0..WORDS.len() {
            put(&mut mem, i);
        }
        mem.commit().unwrap();
        snapshot(&mut mem)
    };
    let expected_reopened = {
        let mut mem = Memvid::open(&ref_path).unwrap();
        snapshot(&mut mem)
    };
    assert_eq!(expected, expected_reopened, "reference differs after reopen");

    // Bulk path: three skip-index commits, then one finalize.
    let bulk_path = dir.path().join("bulk.mv2");
    let got = {
        let mut mem = Memvid::create(&bulk_path).unwrap();
        for batch in 0..3 {
            for i in batch * 3..(batch + 1) * 3 {
                put(&mut mem, i);
            }
            mem.commit_skip_indexes().unwrap();
        }
        mem.finalize_indexes().unwrap();
        snapshot(&mut mem)
    };
    assert_eq!(
        expected.vec, got.vec,
        "search_vec results differ from plain puts (same session)"
    );
    assert_eq!(expected, got, "bulk path differs from plain puts (same session)");

    let got_reopened = {
        let mut mem = Memvid::open(&bulk_path).unwrap();
        snapshot(&mut mem)
    };
    assert_eq!(
        expected.vec, got_reopened.vec,
        "search_vec results differ from plain puts (after reopen)"
    );
    assert_eq!(
        expected, got_reopened,
        "bulk path differs from plain puts (after reopen)"
    );
}
