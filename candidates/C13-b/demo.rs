//! Demo for mutant C13/b: search_vec(q, k) must return min(k, m) hits even when several
//! active frames are exactly equidistant from the query (duplicate embeddings, or distinct
//! embeddings that happen to lie at the same distance).
//!
//! Passes on the unchanged tree, fails with b/patch.diff applied.

use memvid_core::Memvid;
use tempfile::tempdir;

fn ids(hits: &[memvid_core::VecSearchHit]) -> Vec<u64> {
    let mut v: Vec<u64> = hits.iter().map(|h| h.frame_id).collect();
    v.sort_unstable();
    v
}

#[test]
fn distinct_distances_are_fine() {
    // Sanity: without ties the result is right with and without the patch.
    let dir = tempdir().expect("tmp");
    let path = dir.path().join("distinct.mv2");
    let mut mem = Memvid::create(&path).expect("create");
    mem.enable_vec().expect("enable vec");
    for i in 0..10u32 {
        mem.put_with_embedding(format!("doc {i}").as_bytes(), vec![i as f32, 0.0, 0.0])
            .expect("put");
    }
    mem.commit().expect("commit");
    let hits = mem.search_vec(&[0.25, 0.0, 0.0], 4).expect("search");
    assert_eq!(
        hits.iter().map(|h| h.frame_id).collect::<Vec<_>>(),
        vec![0, 1, 2, 3]
    );
}

#[test]
fn duplicate_embeddings_all_returned() {
    let dir = tempdir().expect("tmp");
    let path = dir.path().join("dups.mv2");
    let mut mem = Memvid::create(&path).expect("create");
    mem.enable_vec().expect("enable vec");

    // frames 0,1,2 share one embedding (e.g. the same chunk ingested three times)
    for i in 0..3 {
        mem.put_with_embedding(format!("copy {i}").as_bytes(), vec![1.0, 2.0, 3.0, 4.0])
            .expect("put dup");
    }
    mem.put_with_embedding(b"other a", vec![5.0, 5.0, 5.0, 5.0])
        .expect("put"); // frame 3
    mem.put_with_embedding(b"other b", vec![-3.0, 0.0, 1.0, 9.0])
        .expect("put"); // frame 4
    mem.commit().expect("commit");

    let query = [1.0f32, 2.0, 3.0, 4.5];

    // k >= m: every active embedded frame must come back.
    let hits = mem.search_vec(&query, 10).expect("search");
    assert_eq!(
        hits.len(),
        5,
        "k=10 over m=5 embedded frames must return 5 hits, got {hits:?}"
    );
    assert_eq!(ids(&hits), vec![0, 1, 2, 3, 4]);
    for w in hits.windows(2) {
        assert!(w[0].distance <= w[1].distance, "not sorted: {hits:?}");
    }

    // k < m: top-3 are exactly the three duplicates.
    let top3 = mem.search_vec(&query, 3).expect("search k=3");
    assert_eq!(top3.len(), 3, "k=3 must return 3 hits, got {top3:?}");
    assert_eq!(ids(&top3), vec![0, 1, 2], "got {top3:?}");

    drop(mem);
    let mut reopened = Memvid::open(&path).expect("open");
    let again = reopened.search_vec(&query, 10).expect("search reopened");
    assert_eq!(again.len(), 5, "after reopen: {again:?}");
    assert_eq!(ids(&again), vec![0, 1, 2, 3, 4]);
}

#[test]
fn equidistant_but_distinct_embeddings_all_returned() {
    // Four different points on a circle around the query: all at distance exactly 5.
    let dir = tempdir().expect("tmp");
    let path = dir.path().join("circle.mv2");
    let mut mem = Memvid::create(&path).expect("create");
    mem.enable_vec().expect("enable vec");
    for p in [[3.0f32, 4.0], [-3.0, 4.0], [4.0, -3.0], [0.0, -5.0]] {
        mem.put_with_embedding(format!("pt {p:?}").as_bytes(), p.to_vec())
            .expect("put");
    }
    mem.put_with_embedding(b"far", vec![30.0, 40.0]).expect("put"); // frame 4
    mem.commit().expect("commit");

    let hits = mem.search_vec(&[0.0, 0.0], 4).expect("search");
    assert_eq!(hits.len(), 4, "k=4, m=5: expected 4 hits, got {hits:?}");
    assert_eq!(
        ids(&hits),
        vec![0, 1, 2, 3],
        "the four frames at distance 5 are strictly closer than frame 4 (d=50): {hits:?}"
    );
}
