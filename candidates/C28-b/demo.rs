//! Demo for mutant C28/b.
//!
//! A commit that contains nothing but deletions must leave the persisted vector index in the
//! same state as the in-memory one: `search_vec` has to answer identically on the live handle,
//! on a reopened (read-write) handle, on a read-only handle and on a doctored copy.

use memvid_core::{DoctorOptions, Memvid, PutOptions};
use tempfile::TempDir;

fn vec_hits(mem: &mut Memvid, query: &[f32]) -> Vec<u64> {
    mem.search_vec(query, 10)
        .expect("search_vec")
        .into_iter()
        .map(|hit| hit.frame_id)
        .collect()
}

fn put(mem: &mut Memvid, i: usize, embedding: Vec<f32>) {
    let text = format!("field report {i} on glacier survey station {i}");
    let opts = PutOptions {
        uri: Some(format!("mv2://report/{i}")),
        title: Some(format!("Report {i}")),
        timestamp: Some(1_700_000_000 + i as i64),
        search_text: Some(text.clone()),
        auto_tag: false,
        extract_dates: false,
        extract_triplets: false,
        ..Default::default()
    };
    mem.put_with_embedding_and_options(text.as_bytes(), embedding, opts)
        .expect("put");
}

#[test]
fn delete_only_commit_keeps_vector_index_in_step() {
    let dir = TempDir::new().unwrap();
    let path = dir.path().join("b.mv2");

    let mut mem = Memvid::create(&path).unwrap();
    mem.enable_lex().unwrap();
    mem.enable_vec().unwrap();

    put(&mut mem, 0, vec![1.0, 0.0, 0.0, 0.0]);
    put(&mut mem, 1, vec![0.0, 1.0, 0.0, 0.0]);
    put(&mut mem, 2, vec![0.0, 0.0, 1.0, 0.0]);
    put(&mut mem, 3, vec![0.0, 0.0, 0.0, 1.0]);
    mem.commit().unwrap();

    // A commit made of deletions only.
    mem.delete_frame(1).unwrap();
    mem.commit().unwrap();

    let query = [0.0f32, 0.9, 0.1, 0.0];
    let live = vec_hits(&mut mem, &query);
    assert!(
        !live.contains(&1),
        "live handle returned the deleted frame: {live:?}"
    );
    drop(mem);

    let mut reopened = Memvid::open(&path).unwrap();
    let after_reopen = vec_hits(&mut reopened, &query);
    drop(reopened);

    let mut ro = Memvid::open_read_only(&path).unwrap();
    let read_only = vec_hits(&mut ro, &query);
    drop(ro);

    let doctored_path = dir.path().join("b-doctored.mv2");
    std::fs::copy(&path, &doctored_path).unwrap();
    Memvid::doctor(
        &doctored_path,
        DoctorOptions {
            rebuild_time_index: true,
            rebuild_lex_index: true,
            rebuild_vec_index: true,
            vacuum: false,
            dry_run: false,
            quiet: true,
        },
    )
    .unwrap();
    let mut doctored = Memvid::open_read_only(&doctored_path).unwrap();
    let after_doctor = vec_hits(&mut doctored, &query);

    assert_eq!(after_reopen, live, "reopened handle disagrees with live handle");
    assert_eq!(read_only, live, "read-only handle disagrees with live handle");
    assert_eq!(after_doctor, live, "doctored copy disagrees with live handle");
}
