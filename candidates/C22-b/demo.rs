//! Demo for mutant C22/b.
//!
//! The time index track is not covered by the TOC hash, so a single damaged byte inside it
//! survives `open`. Read APIs on the opened handle (here: `timeline`) must still return a result
//! or an error on such a file, never panic.

use std::panic::{AssertUnwindSafe, catch_unwind};
use std::path::Path;

use memvid_core::types::Toc;
use memvid_core::{Memvid, TIME_INDEX_MAGIC, TimelineQuery, find_last_valid_footer};

fn build_valid_file(path: &Path) {
    let mut mem = Memvid::create(path).expect("create");
    mem.put_bytes(b"alpha document about apples").expect("put 1");
    mem.put_bytes(b"beta document about bananas").expect("put 2");
    mem.put_bytes(b"gamma document about cherries").expect("put 3");
    mem.commit().expect("commit");
}

#[test]
fn damaged_time_index_entry_never_panics_timeline() {
    let dir = tempfile::tempdir().expect("tmp");
    let path = dir.path().join("timeline.mv2");
    build_valid_file(&path);

    // Locate the time index track through the committed TOC.
    let mut bytes = std::fs::read(&path).expect("read file");
    let (offset, count) = {
        let footer = find_last_valid_footer(&bytes).expect("valid footer");
        let toc = Toc::decode(footer.toc_bytes).expect("decode toc");
        let manifest = toc.time_index.expect("time index present");
        (manifest.bytes_offset as usize, manifest.entry_count as usize)
    };
    assert_eq!(&bytes[offset..offset + 4], &TIME_INDEX_MAGIC);
    assert_eq!(count, 3);

    // Track layout: magic(4) count(8) then `count` x [timestamp:i64][frame_id:u64].
    // Flip one high bit in the frame id of the last entry (keeps the track sorted).
    let last_frame_id = offset + 12 + (count - 1) * 16 + 8;
    bytes[last_frame_id + 2] ^= 0x01; // frame id 2 -> 65538
    std::fs::write(&path, &bytes).expect("write damaged file");

    let outcome = catch_unwind(AssertUnwindSafe(|| {
        let mut mem = Memvid::open_read_only(&path)?;
        let forward = mem.timeline(TimelineQuery::default())?;
        let reverse = mem.timeline(TimelineQuery::builder().reverse(true).build())?;
        Ok::<_, memvid_core::MemvidError>((forward.len(), reverse.len()))
    }));

    match outcome {
        Ok(Ok((forward, reverse))) => {
            // The two intact entries are still listed.
            assert_eq!(forward, 2);
            assert_eq!(reverse, 2);
        }
        Ok(Err(err)) => println!("timeline returned an error (acceptable): {err}"),
        Err(_) => panic!("timeline panicked on a file with one damaged time index entry"),
    }
}
