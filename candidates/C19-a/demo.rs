//! C19 demo A: a commit whose final rename fails must not leave its staging copy
//! (`.<name>.XXXXXX`) next to the memory -- also when the memory was opened through a bare,
//! cwd-relative file name such as `notes.mv2`.
//!
//! The rename is made to fail without any fault injection: while the handle is open the
//! destination path is replaced by a directory, so `rename(staging, destination)` gets EISDIR.

use memvid_core::{Memvid, PutOptions};
use std::fs;
use std::path::Path;
use tempfile::TempDir;

fn listing(dir: &Path) -> Vec<String> {
    let mut names: Vec<String> = fs::read_dir(dir)
        .unwrap()
        .map(|e| e.unwrap().file_name().to_string_lossy().into_owned())
        .collect();
    names.sort();
    names
}

fn put(mem: &mut Memvid, n: u32) {
    let opts = PutOptions {
        uri: Some(format!("mv2://doc{n}")),
        ..Default::default()
    };
    mem.put_bytes_with_options(format!("content {n}").as_bytes(), opts)
        .unwrap();
}

/// create, commit, put, then fail the next commit at its rename; returns the directory
/// listing observed right after the failed commit returned.
fn failed_commit_listing(dir: &Path, mem_path: &Path) -> Vec<String> {
    let mut mem = Memvid::create(mem_path).unwrap();
    put(&mut mem, 0);
    mem.commit().unwrap();
    assert_eq!(listing(dir), vec!["notes.mv2".to_string()]);

    put(&mut mem, 1);
    // Replace the destination by a directory: the staging file can still be created and
    // filled, but it can no longer be renamed over the destination.
    fs::remove_file(mem_path).unwrap();
    fs::create_dir(mem_path).unwrap();

    let result = mem.commit();
    assert!(result.is_err(), "commit over a directory must fail");
    let after = listing(dir);

    // Let the handle go away quietly: with the directory removed the implicit commit on
    // drop can rename again.
    fs::remove_dir(mem_path).unwrap();
    drop(mem);
    after
}

#[test]
fn failed_commit_leaves_no_staging_file() {
    // Absolute path (what the existing tests use).
    let abs = TempDir::new().unwrap();
    let after = failed_commit_listing(abs.path(), &abs.path().join("notes.mv2"));
    assert_eq!(
        after,
        vec!["notes.mv2".to_string()],
        "absolute path: staging file left behind after failed commit"
    );

    // Bare relative file name, resolved against the current directory.
    let rel = TempDir::new().unwrap();
    std::env::set_current_dir(rel.path()).unwrap();
    let after = failed_commit_listing(rel.path(), Path::new("notes.mv2"));
    assert_eq!(
        after,
        vec!["notes.mv2".to_string()],
        "relative path: staging file left behind after failed commit"
    );
    assert_eq!(listing(rel.path()), vec!["notes.mv2".to_string()]);
    std::env::set_current_dir("/").unwrap();
}
