//! Demo for mutant C15/b: more than ~20 document frames whose explicit timestamps
//! are not monotonic in frame-id order and contain many ties.

use memvid_core::{Memvid, PutOptions, TimelineQuery};
use tempfile::TempDir;

#[test]
fn many_frames_with_tied_unordered_timestamps() {
    let dir = TempDir::new().unwrap();
    let path = dir.path().join("demo.mv2");
    let mut mem = Memvid::create(&path).unwrap();

    let n = 64usize;
    let mut expected: Vec<(i64, u64)> = Vec::new();
    for i in 0..n {
        // five distinct timestamps, visited in a scrambled order
        let ts = 1_700_000_000 + ((i * 7 + i / 3) % 5) as i64;
        let opts = PutOptions {
            uri: Some(format!("mv2://doc{i}")),
            timestamp: Some(ts),
            instant_index: false,
            auto_tag: false,
            extract_dates: false,
            extract_triplets: false,
            ..Default::default()
        };
        mem.put_bytes_with_options(format!("document number {i}").as_bytes(), opts)
            .unwrap();
        expected.push((ts, i as u64));
    }
    mem.commit().unwrap();
    expected.sort();

    let got: Vec<(i64, u64)> = mem
        .timeline(TimelineQuery::builder().no_limit().build())
        .expect("timeline after commit")
        .into_iter()
        .map(|e| (e.timestamp, e.frame_id))
        .collect();
    assert_eq!(got, expected, "timeline must be ordered by (timestamp, frame id)");

    let mut rev: Vec<(i64, u64)> = mem
        .timeline(TimelineQuery::builder().no_limit().reverse(true).build())
        .expect("reverse timeline")
        .into_iter()
        .map(|e| (e.timestamp, e.frame_id))
        .collect();
    rev.reverse();
    assert_eq!(rev, expected, "reverse must be the exact reverse order");

    drop(mem);
    let mut reopened = Memvid::open_read_only(&path).unwrap();
    let got: Vec<(i64, u64)> = reopened
        .timeline(TimelineQuery::builder().no_limit().build())
        .expect("timeline after reopen")
        .into_iter()
        .map(|e| (e.timestamp, e.frame_id))
        .collect();
    assert_eq!(got, expected);
}
