//! C23 demo B: the same history (every put carries an explicit timestamp) executed twice,
//! a little more than a second apart, must leave the same logical state: frame
//! timestamps and the timeline. The history revises a frame with `update_frame` and leaves
//! the timestamp option unset, so the revision is expected to keep the original one.

use memvid_core::{Memvid, PutOptions, TimelineQuery};
use std::path::Path;
use tempfile::TempDir;

fn put_opts(i: u64) -> PutOptions {
    PutOptions {
        timestamp: Some(1_700_000_000 + i as i64 * 3600),
        uri: Some(format!("mv2://notes/{i}")),
        title: Some(format!("Note {i}")),
        auto_tag: false,
        extract_dates: false,
        extract_triplets: false,
        instant_index: false,
        ..Default::default()
    }
}

/// Returns (per-frame `(id, timestamp, status)` triples, timeline as `(frame_id, timestamp)`).
fn run_history(path: &Path) -> (Vec<(u64, i64, String)>, Vec<(u64, i64)>) {
    let mut mem = Memvid::create(path).unwrap();
    for i in 0..4u64 {
        let body = format!("note {i}: the quick brown fox visits burrow number {i}");
        mem.put_bytes_with_options(body.as_bytes(), put_opts(i))
            .unwrap();
    }
    mem.commit().unwrap();

    // Revise note 1 with new content; only the title is given, everything else inherits.
    let revise = PutOptions {
        title: Some("Note 1 (revised)".to_string()),
        auto_tag: false,
        extract_dates: false,
        extract_triplets: false,
        instant_index: false,
        ..Default::default()
    };
    mem.update_frame(
        1,
        Some(b"note 1 revised: the fox moved to another burrow".to_vec()),
        revise,
        None,
    )
    .unwrap();
    mem.commit().unwrap();
    drop(mem);

    let mut mem = Memvid::open(path).unwrap();
    let frames = (0..mem.frame_count() as u64)
        .map(|id| {
            let f = mem.frame_by_id(id).unwrap();
            (f.id, f.timestamp, format!("{:?}", f.status))
        })
        .collect();
    let timeline = mem
        .timeline(TimelineQuery::default())
        .unwrap()
        .into_iter()
        .map(|e| (e.frame_id, e.timestamp))
        .collect();
    (frames, timeline)
}

#[test]
fn update_history_is_reproducible() {
    let dir_a = TempDir::new().unwrap();
    let dir_b = TempDir::new().unwrap();
    let first = run_history(&dir_a.path().join("a.mv2"));
    // Let the wall clock move on; nothing in the history refers to it.
    std::thread::sleep(std::time::Duration::from_millis(1200));
    let second = run_history(&dir_b.path().join("b.mv2"));

    assert_eq!(
        first.0, second.0,
        "same history, different frame timestamps"
    );
    assert_eq!(first.1, second.1, "same history, different timeline");
}
