//! C18 demo A: a read-only handle on a memory that is larger than the 16 MiB tail-scan
//! window must (1) leave the file bytes untouched and (2) still read every committed frame.

use memvid_core::{Memvid, MemoryCardBuilder, PutOptions};
use std::fs;
use tempfile::TempDir;

const BLOB: usize = 1024 * 1024;
const BLOBS: usize = 18; // > 16 MiB of incompressible payload

/// Deterministic, incompressible bytes (xorshift64*).
fn noise(seed: u64, len: usize) -> Vec<u8> {
    let mut state = seed.wrapping_mul(0x9E37_79B9_7F4A_7C15) | 1;
    let mut out = Vec::with_capacity(len + 8);
    while out.len() < len {
        state ^= state >> 12;
        state ^= state << 25;
        state ^= state >> 27;
        out.extend_from_slice(&state.wrapping_mul(0x2545_F491_4F6C_DD1D).to_le_bytes());
    }
    out.truncate(len);
    out
}

fn digest(bytes: &[u8]) -> (usize, u64) {
    let sum = bytes
        .iter()
        .fold(0xcbf2_9ce4_8422_2325u64, |h, b| (h ^ u64::from(*b)).wrapping_mul(0x100_0000_01b3));
    (bytes.len(), sum)
}

/// What the committing writer itself reads back for every frame (large payloads are chunked
/// into child frames, so there are more frames than blobs).
fn committed_view(mem: &mut Memvid) -> Vec<(usize, u64)> {
    (0..mem.frame_count() as u64)
        .map(|id| digest(&mem.frame_canonical_payload(id).unwrap()))
        .collect()
}

/// Builds the memory and returns the committed per-frame view.
fn build_large_memory(path: &std::path::Path, with_card: bool) -> Vec<(usize, u64)> {
    let mut mem = Memvid::create(path).unwrap();
    for i in 0..BLOBS {
        let opts = PutOptions {
            uri: Some(format!("mv2://blob/{i}")),
            title: Some(format!("blob {i}")),
            search_text: Some(format!("blob number {i}")),
            timestamp: Some(1_700_000_000 + i as i64),
            auto_tag: false,
            extract_dates: false,
            extract_triplets: false,
            ..Default::default()
        };
        mem.put_bytes_with_options(&noise(i as u64 + 1, BLOB), opts)
            .unwrap();
    }
    if !with_card {
        mem.commit().unwrap();
        return committed_view(&mut mem);
    }
    let card = MemoryCardBuilder::new()
        .fact()
        .entity("user")
        .slot("employer")
        .value("Anthropic")
        .source(0, Some("mv2://blob/0".to_string()))
        .engine("test", "1.0.0")
        .build(0)
        .unwrap();
    mem.put_memory_card(card).unwrap();
    mem.commit().unwrap();
    committed_view(&mut mem)
}

#[test]
fn read_only_open_of_large_memory_keeps_file_bytes() {
    let dir = TempDir::new().unwrap();
    let path = dir.path().join("large.mv2");
    let committed = build_large_memory(&path, true);

    let before = fs::read(&path).unwrap();
    assert!(
        before.len() > 16 * 1024 * 1024,
        "test needs a file larger than the tail window, got {}",
        before.len()
    );

    // Whatever the read-only open returns, it must not have touched the file.
    let opened = Memvid::open_read_only(&path).map(|ro| {
        let count = ro.frame_count();
        let _ = ro.stats();
        count
    });

    let after = fs::read(&path).unwrap();
    assert_eq!(
        before.len(),
        after.len(),
        "read-only open changed the file length (open returned {opened:?})"
    );
    assert!(
        before == after,
        "read-only open changed the file bytes (open returned {opened:?})"
    );
    assert_eq!(opened.unwrap(), committed.len());

    // And the memory is still what was committed.
    let reopened = Memvid::open_read_only(&path).unwrap();
    assert_eq!(reopened.frame_count(), committed.len());
    assert_eq!(reopened.memory_card_count(), 1);
}

#[test]
fn read_only_handle_reads_every_committed_frame_of_large_memory() {
    let dir = TempDir::new().unwrap();
    let path = dir.path().join("large.mv2");
    let committed = build_large_memory(&path, false);
    let before = fs::read(&path).unwrap();

    let read_everything = || -> Result<(), String> {
        let mut ro = Memvid::open_read_only(&path).map_err(|err| format!("open: {err}"))?;
        if ro.frame_count() != committed.len() {
            return Err(format!("frame_count {} != {}", ro.frame_count(), committed.len()));
        }
        for (id, expected) in committed.iter().enumerate() {
            let bytes = ro
                .frame_canonical_payload(id as u64)
                .map_err(|err| format!("frame {id} unreadable on read-only handle: {err}"))?;
            if digest(&bytes) != *expected {
                return Err(format!("frame {id} payload differs from the committed one"));
            }
        }
        Ok(())
    };
    let outcome = read_everything();

    assert!(
        before == fs::read(&path).unwrap(),
        "read-only open + frame reads changed the file bytes (reads returned {outcome:?})"
    );
    outcome.unwrap();
}
