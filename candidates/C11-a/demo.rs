//! Demo for mutant C11/a: a time-travel search whose only matching frames lie
//! *after* the cut-off must return nothing. With the patch the sketch
//! pre-filter replaces the (hard) as_of candidate set by its own candidates
//! when the two do not overlap, so frames from the future leak out.
#![cfg(feature = "lex")]

use memvid_core::types::AclEnforcementMode;
use memvid_core::{Memvid, PutOptions, SearchRequest};
use tempfile::TempDir;

fn request(query: &str, as_of_frame: Option<u64>, as_of_ts: Option<i64>) -> SearchRequest {
    SearchRequest {
        query: query.to_string(),
        top_k: 20,
        snippet_chars: 120,
        uri: None,
        scope: None,
        cursor: None,
        #[cfg(feature = "temporal_track")]
        temporal: None,
        as_of_frame,
        as_of_ts,
        no_sketch: false,
        acl_context: None,
        acl_enforcement_mode: AclEnforcementMode::Audit,
    }
}

fn put(mem: &mut Memvid, uri: &str, text: &str, ts: i64) -> u64 {
    let opts = PutOptions {
        uri: Some(uri.to_string()),
        title: Some(uri.to_string()),
        search_text: Some(text.to_string()),
        timestamp: Some(ts),
        ..Default::default()
    };
    mem.put_bytes_with_options(text.as_bytes(), opts).unwrap()
}

#[test]
fn as_of_search_with_all_matches_in_the_future_returns_nothing() {
    let dir = TempDir::new().unwrap();
    let path = dir.path().join("c11a.mv2");
    let mut mem = Memvid::create(&path).unwrap();
    mem.enable_lex().unwrap();

    // "Past": three frames about gardening.
    let past = [
        "tomato seedlings need warm soil and regular watering",
        "prune the apple orchard before the spring growth",
        "compost heap turning schedule for the vegetable garden",
    ];
    for (i, text) in past.iter().enumerate() {
        put(&mut mem, &format!("mv2://past/{i}"), text, 1_700_000_000 + i as i64);
    }
    mem.commit().unwrap();
    let cutoff_frame = (past.len() - 1) as u64;
    let cutoff_ts = 1_700_000_000 + past.len() as i64;

    // "Future": frames about airships, written after the cut-off.
    let future = [
        "zeppelin airship hangar maintenance logbook",
        "zeppelin airship hangar maintenance logbook second volume",
        "the zeppelin airship crossed the atlantic in three days",
    ];
    for (i, text) in future.iter().enumerate() {
        put(
            &mut mem,
            &format!("mv2://future/{i}"),
            text,
            1_800_000_000 + i as i64,
        );
    }
    mem.commit().unwrap();
    assert!(mem.has_sketches(), "sketch track is expected to be populated");

    for query in [
        "zeppelin",
        "zeppelin airship",
        "zeppelin airship hangar maintenance logbook",
    ] {
        // Sanity: the unfiltered search does find the future frames.
        let all = mem.search(request(query, None, None)).unwrap();
        assert!(
            all.hits.iter().any(|h| h.frame_id > cutoff_frame),
            "unfiltered search for {query:?} should see the new frames"
        );

        let by_frame = mem.search(request(query, Some(cutoff_frame), None)).unwrap();
        for hit in &by_frame.hits {
            assert!(
                hit.frame_id <= cutoff_frame,
                "query {query:?} as_of_frame={cutoff_frame} returned future frame {}",
                hit.frame_id
            );
        }

        let by_ts = mem.search(request(query, None, Some(cutoff_ts))).unwrap();
        for hit in &by_ts.hits {
            let frame = mem.frame_by_id(hit.frame_id).unwrap();
            assert!(
                frame.timestamp <= cutoff_ts,
                "query {query:?} as_of_ts={cutoff_ts} returned frame {} with timestamp {}",
                hit.frame_id,
                frame.timestamp
            );
        }
    }
}
