//! Demo for mutant C04/B: "Opening a recovered file again changes no frame."
//!
//! A crash leaves acknowledged but uncommitted *inserts* in the embedded WAL. The first open
//! replays them. Every later open must see exactly the same frames: the replay has to be
//! checkpointed durably (header.wal_sequence) or the same records are applied again.
//!
//! No fault injection is needed: the crash-left file is a byte copy of the live file taken
//! while the writer still holds uncommitted puts (the writer is then forgotten, not dropped,
//! so no implicit commit happens).
//!
//! Two histories: a memory that only holds opaque binary payloads (nothing text-indexable,
//! so its sketch track stays empty), and an ordinary text memory as a control.

use std::path::Path;

use memvid_core::{Memvid, PutOptions};

fn frames(path: &Path) -> Vec<String> {
    let mut mem = Memvid::open(path).expect("open");
    let mut out = Vec::new();
    for id in 0..mem.frame_count() as u64 {
        let f = mem.frame_by_id(id).expect("frame");
        let body = match mem.frame_canonical_payload(id) {
            Ok(b) => format!("{} bytes, first={:?}", b.len(), &b[..b.len().min(4)]),
            Err(e) => format!("<unreadable: {e}>"),
        };
        out.push(format!("{id} {:?} {:?} {body}", f.status, f.uri));
    }
    out
}

/// Opaque, non-UTF-8, non-compressible-looking bytes (no text to index, no known magic).
fn blob(seed: u8, len: usize) -> Vec<u8> {
    let mut x = 0x9E37_79B9u32 ^ u32::from(seed);
    (0..len)
        .map(|_| {
            x ^= x << 13;
            x ^= x >> 17;
            x ^= x << 5;
            0x80 | (x as u8) // every byte >= 0x80 and never a valid UTF-8 sequence start+cont mix
        })
        .collect()
}

fn run(name: &str, committed: &[u8], pending: [&[u8]; 2]) {
    let dir = tempfile::tempdir().unwrap();
    let live = dir.path().join("live.mv2");
    let left = dir.path().join("crash-left.mv2");
    let opt = |u: &str| PutOptions {
        uri: Some(format!("mv2://{name}/{u}")),
        timestamp: Some(1_700_000_000),
        ..Default::default()
    };

    let mut mem = Memvid::create(&live).unwrap();
    mem.put_bytes_with_options(committed, opt("a")).unwrap();
    mem.commit().unwrap();
    // Acknowledged, not committed:
    mem.put_bytes_with_options(pending[0], opt("b")).unwrap();
    mem.put_bytes_with_options(pending[1], opt("c")).unwrap();
    std::fs::copy(&live, &left).unwrap(); // what a crash right now leaves on disk
    std::mem::forget(mem);

    let first = frames(&left); // recovery: replays b and c
    assert_eq!(first.len(), 3, "[{name}] recovery must surface the pending puts: {first:#?}");

    let second = frames(&left); // nothing left to recover
    assert_eq!(second, first, "[{name}] second open of a recovered file changed frames");

    let third = frames(&left);
    assert_eq!(third, first, "[{name}] third open of a recovered file changed frames");
}

#[test]
fn reopening_a_recovered_binary_only_memory_changes_no_frame() {
    let (a, b, c) = (blob(1, 700), blob(2, 900), blob(3, 500));
    run("blobs", &a, [&b, &c]);
}

#[test]
fn reopening_a_recovered_text_memory_changes_no_frame() {
    run(
        "text",
        b"alpha committed document",
        [b"beta pending document", b"gamma pending document"],
    );
}
