//! Demo for C31 mutant B: a footer-shaped but invalid record that starts inside the last
//! bytes of a valid footer (it only clobbers the generation field, which is not part of the
//! footer's validity) must not hide that valid footer from the scan.

use memvid_core::footer::{CommitFooter, FOOTER_SIZE, find_last_valid_footer};

fn footer_for(toc: &[u8], generation: u64) -> [u8; FOOTER_SIZE] {
    CommitFooter {
        toc_len: toc.len() as u64,
        toc_hash: *blake3::hash(toc).as_bytes(),
        generation,
    }
    .encode()
}

/// Naive reference: try every offset from the end, accept only fully consistent footers.
fn reference_scan(bytes: &[u8]) -> Option<(usize, usize)> {
    if bytes.len() < FOOTER_SIZE {
        return None;
    }
    for pos in (0..=bytes.len() - FOOTER_SIZE).rev() {
        let Some(footer) = CommitFooter::decode(&bytes[pos..pos + FOOTER_SIZE]) else {
            continue;
        };
        let Ok(len) = usize::try_from(footer.toc_len) else {
            continue;
        };
        if len == 0 || len > pos {
            continue;
        }
        if footer.hash_matches(&bytes[pos - len..pos]) {
            return Some((pos, pos - len));
        }
    }
    None
}

/// Write `record` into `bytes` at `at`, growing the buffer when needed.
fn overwrite(bytes: &mut Vec<u8>, at: usize, record: &[u8]) {
    if bytes.len() < at + record.len() {
        bytes.resize(at + record.len(), 0);
    }
    bytes[at..at + record.len()].copy_from_slice(record);
}

fn check(bytes: &[u8]) {
    let expected = reference_scan(bytes);
    let got = find_last_valid_footer(bytes).map(|s| {
        assert_eq!(s.toc_bytes, &bytes[s.toc_offset..s.footer_offset]);
        (s.footer_offset, s.toc_offset)
    });
    assert_eq!(got, expected);
}

#[test]
fn invalid_trailer_overlapping_valid_footer_tail() {
    // [junk][toc][footer gen 5] and then a bogus trailer (wrong hash) written so that it
    // starts 50 bytes into the valid footer, i.e. over the generation field only.
    let toc = b"the-table-of-contents".to_vec();
    let mut bytes = vec![0xEEu8; 13];
    bytes.extend_from_slice(&toc);
    let footer_at = bytes.len();
    bytes.extend_from_slice(&footer_for(&toc, 5));

    let bogus = CommitFooter {
        toc_len: 7,
        toc_hash: [0x5A; 32],
        generation: 6,
    }
    .encode();
    overwrite(&mut bytes, footer_at + 50, &bogus);
    bytes.extend_from_slice(&[0u8; 11]);

    assert_eq!(reference_scan(&bytes), Some((footer_at, footer_at - toc.len())));
    check(&bytes);
}

#[test]
fn overlapping_trailer_makes_scan_fall_back_to_stale_commit() {
    // Two commits; a bogus trailer with an oversized length starts at the very last byte
    // of the newer footer. The scan must still report the newer commit, not the older one.
    let toc_old = vec![0x01u8; 33];
    let mut bytes = toc_old.clone();
    bytes.extend_from_slice(&footer_for(&toc_old, 1));
    bytes.extend_from_slice(&[0x77u8; 64]);
    let toc_new = vec![0x02u8; 21];
    bytes.extend_from_slice(&toc_new);
    let newer_at = bytes.len();
    bytes.extend_from_slice(&footer_for(&toc_new, 2));

    let bogus = CommitFooter {
        toc_len: u64::from(u32::MAX),
        toc_hash: [0; 32],
        generation: 3,
    }
    .encode();
    overwrite(&mut bytes, newer_at + FOOTER_SIZE - 1, &bogus);

    assert_eq!(reference_scan(&bytes), Some((newer_at, newer_at - toc_new.len())));
    check(&bytes);
}

#[test]
fn adjacent_trailers_are_fine() {
    // Control: a bogus trailer directly after a valid footer (no overlap).
    let toc = vec![0x42u8; 17];
    let mut bytes = toc.clone();
    bytes.extend_from_slice(&footer_for(&toc, 9));
    let bogus = CommitFooter {
        toc_len: 3,
        toc_hash: [1; 32],
        generation: 10,
    }
    .encode();
    bytes.extend_from_slice(&bogus);
    check(&bytes);
}
