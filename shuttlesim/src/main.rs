//! Engine 3 (C41): the real enrichment worker on a real Memvid, under shuttle's scheduler.
//!
//! memvid-core is compiled with `--cfg memvid_verif_shuttle`, which makes `std::sync` / `std::thread`
//! inside enrichment.rs and enrichment_worker.rs come from shuttle: the worker thread, its mutex,
//! its atomics and its sleeps are then scheduled by shuttle's seeded schedulers (random and PCT).
//! The foreground workload is drawn from `shuttle::rand`, so one schedule file replays everything.
//!
//! usage: shuttlesim check <quick|thorough> | worker <seed> <iterations> <sched> | replay <file>
use memvid_core::{start_enrichment_worker, EnrichmentWorkerConfig, Memvid, PutOptions, SearchRequest};
use shuttle::rand::Rng;
use shuttle::sync::{Arc, Mutex};
use shuttle::thread;
use std::sync::atomic::{AtomicU64, Ordering as O};
use std::time::Instant;

static ITER: AtomicU64 = AtomicU64::new(0);
/// 1 = the scheduler is fair in probability (random): wait for the queue to drain and judge
/// liveness; 0 = PCT, which is unfair by design (a spinning high-priority thread starves the
/// others): stop the worker right after the history and judge safety only.
static FAIR: AtomicU64 = AtomicU64::new(1);
// probes (real atomics: outside the schedule)
static P_QUEUED: AtomicU64 = AtomicU64::new(0);
static P_PLAIN: AtomicU64 = AtomicU64::new(0);
static P_COMMITS: AtomicU64 = AtomicU64::new(0);
static P_SEARCHES: AtomicU64 = AtomicU64::new(0);
static P_WORKER_BEFORE_COMMIT: AtomicU64 = AtomicU64::new(0);
static P_DRAIN_SPINS: AtomicU64 = AtomicU64::new(0);
static P_PROCESSED: AtomicU64 = AtomicU64::new(0);
static P_FG_OPS: AtomicU64 = AtomicU64::new(0);

fn scratch() -> String {
    let base = std::env::var("MEMSIM_SCRATCH").unwrap_or_else(|_| "/dev/shm".to_string());
    format!("{base}/shuttlesim.{}", std::process::id())
}

struct Doc {
    uri: String,
    text: String,
    queued: bool,
}

/// One schedule: create a memory, start the real worker, run a random foreground history, wait for
/// the queue to drain, stop the worker, check.
fn scenario() {
    let n = ITER.fetch_add(1, O::SeqCst);
    let dir = format!("{}/i{n}", scratch());
    std::fs::create_dir_all(&dir).unwrap();
    let path = format!("{dir}/m.mv2");
    let mem = Memvid::create(&path).expect("create");
    let shared = Arc::new(Mutex::new(mem));
    let mut rng = shuttle::rand::thread_rng();
    let cfg = EnrichmentWorkerConfig { embedding_batch_size: 4, checkpoint_interval: rng.gen_range(1..4usize), task_delay_ms: rng.gen_range(0..2u64), max_task_time_ms: 5000 };
    let handle = start_enrichment_worker(Arc::clone(&shared), Some(cfg));

    let n_ops = rng.gen_range(2..9usize);
    let mut docs: Vec<Doc> = Vec::new();
    let mut uncommitted = 0usize;
    for k in 0..n_ops {
        P_FG_OPS.fetch_add(1, O::Relaxed);
        match rng.gen_range(0..8u32) {
            0..=2 => {
                // a document that asks for background enrichment
                let uri = format!("mv2://q/{n}/{k}");
                let text = format!("queued document number {k} of schedule {n} mentions zorvak{k}x and blimtop");
                let mut o = PutOptions::default();
                o.uri = Some(uri.clone());
                o.timestamp = Some(k as i64);
                o.instant_index = true;
                o.enable_embedding = true;
                o.auto_tag = false;
                o.extract_dates = false;
                o.extract_triplets = false;
                let mut g = shared.lock().unwrap();
                g.put_bytes_with_options(text.as_bytes(), o).expect("put (queued)");
                drop(g);
                docs.push(Doc { uri, text, queued: true });
                uncommitted += 1;
                P_QUEUED.fetch_add(1, O::Relaxed);
            }
            3 => {
                let uri = format!("mv2://p/{n}/{k}");
                let text = format!("plain document number {k} of schedule {n} mentions quandox{k}x");
                let mut o = PutOptions::default();
                o.uri = Some(uri.clone());
                o.timestamp = Some(k as i64);
                o.auto_tag = false;
                o.extract_dates = false;
                o.extract_triplets = false;
                let mut g = shared.lock().unwrap();
                g.put_bytes_with_options(text.as_bytes(), o).expect("put (plain)");
                drop(g);
                docs.push(Doc { uri, text, queued: false });
                uncommitted += 1;
                P_PLAIN.fetch_add(1, O::Relaxed);
            }
            4 | 5 => {
                let mut g = shared.lock().unwrap();
                g.commit().expect("commit");
                drop(g);
                uncommitted = 0;
                P_COMMITS.fetch_add(1, O::Relaxed);
            }
            _ => {
                // a search in the middle of everything: every hit names an existing frame
                let mut g = shared.lock().unwrap();
                let rq = SearchRequest { query: "blimtop".into(), top_k: 10, snippet_chars: 60, uri: None, scope: None, cursor: None, as_of_frame: None, as_of_ts: None, no_sketch: true, acl_context: None, acl_enforcement_mode: Default::default() };
                if let Ok(r) = g.search(rq) {
                    let committed = g.frame_count() as u64;
                    for h in &r.hits {
                        // hits may name documents that are still pending (instant index): their id is
                        // the id they will get, i.e. below committed + uncommitted
                        assert!(h.frame_id < committed + uncommitted as u64 + 1, "C41 search-hit-names-frame: hit names frame {} but only {} frames are committed and {} pending", h.frame_id, committed, uncommitted);
                    }
                }
                drop(g);
                P_SEARCHES.fetch_add(1, O::Relaxed);
            }
        }
    }
    // Did the worker get to a task whose document was not committed yet? (probe only)
    // make everything durable, then wait (yielding) until the queue is empty: a worker that is asked
    // to stop early may legitimately leave tasks queued, so "ends Enriched" is judged after the drain
    {
        let mut g = shared.lock().unwrap();
        g.commit().expect("final commit");
    }
    let fair = FAIR.load(O::SeqCst) == 1;
    let mut spins = 0u64;
    while fair {
        let g = shared.lock().unwrap();
        let q = g.enrichment_queue_len();
        let diag = format!("first task {:?}, {} frames committed", g.next_enrichment_task().map(|t| t.frame_id), g.frame_count());
        drop(g);
        if q == 0 {
            break;
        }
        spins += 1;
        assert!(spins < 3000, "C41 liveness: the enrichment queue still holds {q} tasks after {spins} yields with no further foreground mutation ({diag})");
        thread::yield_now();
    }
    P_DRAIN_SPINS.fetch_add(spins, O::Relaxed);
    let stats = handle.stop_and_wait();
    P_PROCESSED.fetch_add(stats.frames_processed, O::Relaxed);
    if stats.errors > 0 {
        P_WORKER_BEFORE_COMMIT.fetch_add(stats.errors, O::Relaxed);
    }
    assert!(!stats.is_running, "C41 worker-stops: the worker still reports running after stop_and_wait");
    let queued = docs.iter().filter(|d| d.queued).count() as u64;
    // ---- oracle on the live handle, then on a reopened one
    let not_yet = std::cell::RefCell::new(0u64);
    let check = |m: &mut Memvid, at: &str| {
        *not_yet.borrow_mut() = 0;
        assert_eq!(m.frame_count(), docs.len(), "C41 frames-present [{at}]: {} frames, {} documents were acknowledged", m.frame_count(), docs.len());
        for d in &docs {
            let f = m.frame_by_uri(&d.uri).unwrap_or_else(|e| panic!("C41 frames-present [{at}]: acknowledged document {} is missing: {e}", d.uri));
            let got = m.frame_canonical_payload(f.id).unwrap_or_else(|e| panic!("C41 frames-present [{at}]: {} unreadable: {e}", d.uri));
            assert!(got == d.text.as_bytes(), "C41 content-unchanged [{at}]: document {} reads back different bytes", d.uri);
            let enriched = f.enrichment_state == memvid_core::types::EnrichmentState::Enriched;
            if !d.queued {
                assert!(enriched, "C41 only-queued-frames-change [{at}]: document {} (frame {}) was never queued and is {:?}", d.uri, f.id, f.enrichment_state);
            } else if fair {
                assert!(enriched, "C41 ends-enriched [{at}]: document {} (frame {}, queued for enrichment) is {:?} after the queue drained and the worker stopped", d.uri, f.id, f.enrichment_state);
            } else if !enriched {
                // stopped early: then the task must still be queued (checked below by count)
                *not_yet.borrow_mut() += 1;
            }
        }
    };
    {
        let mut g = shared.lock().unwrap();
        g.commit().expect("commit after stop");
        check(&mut g, "live");
    }
    let pending_now = *not_yet.borrow();
    assert!(stats.frames_processed + pending_now == queued, "C41 exactly-once: {} documents were queued, {} are not enriched yet, the worker reports {} processed ({} errors)", queued, pending_now, stats.frames_processed, stats.errors);
    if !fair {
        let g = shared.lock().unwrap();
        assert!(g.enrichment_queue_len() as u64 == pending_now, "C41 exactly-once: {} queued documents are not enriched yet but the queue holds {} tasks", pending_now, g.enrichment_queue_len());
    }
    drop(shared);
    let mut m = Memvid::open(&path).expect("reopen");
    check(&mut m, "reopened");
    drop(m);
    let _ = std::fs::remove_dir_all(&dir);
}

fn config() -> shuttle::Config {
    let mut c = shuttle::Config::new();
    c.stack_size = 16 * 1024 * 1024;
    c.max_steps = shuttle::MaxSteps::FailAfter(400_000);
    c.failure_persistence = shuttle::FailurePersistence::File(Some(std::path::PathBuf::from(scratch())));
    c
}

fn worker(seed: u64, iters: usize, sched: &str) {
    let _ = std::fs::create_dir_all(scratch());
    std::env::set_var("TMPDIR", scratch());
    let t0 = Instant::now();
    FAIR.store(if sched == "pct" { 0 } else { 1 }, O::SeqCst);
    let r = std::panic::catch_unwind(|| {
        if sched == "pct" {
            let s = shuttle::scheduler::PctScheduler::new_from_seed(seed, 3, iters);
            shuttle::Runner::new(s, config()).run(scenario);
        } else {
            let s = shuttle::scheduler::RandomScheduler::new_from_seed(seed, iters);
            shuttle::Runner::new(s, config()).run(scenario);
        }
    });
    let done = ITER.load(O::SeqCst);
    let probes = serde_json::json!({
        "queued_puts": P_QUEUED.load(O::Relaxed), "plain_puts": P_PLAIN.load(O::Relaxed), "commits": P_COMMITS.load(O::Relaxed), "searches": P_SEARCHES.load(O::Relaxed),
        "worker_task_errors": P_WORKER_BEFORE_COMMIT.load(O::Relaxed), "drain_spins": P_DRAIN_SPINS.load(O::Relaxed), "tasks_processed": P_PROCESSED.load(O::Relaxed), "foreground_ops": P_FG_OPS.load(O::Relaxed),
    });
    let mut out = serde_json::json!({"seed": seed, "sched": sched, "iterations": done, "probes": probes, "wall_s": t0.elapsed().as_secs_f64(), "failed": r.is_err()});
    if let Err(p) = r {
        let msg = p.downcast_ref::<String>().cloned().or_else(|| p.downcast_ref::<&str>().map(|s| s.to_string())).unwrap_or_default();
        out["message"] = serde_json::Value::String(msg.chars().take(1500).collect());
        // shuttle wrote schedule<N> into the scratch dir
        let mut files: Vec<_> = std::fs::read_dir(scratch()).map(|d| d.flatten().filter(|e| e.file_name().to_string_lossy().starts_with("schedule")).map(|e| e.path()).collect()).unwrap_or_default();
        files.sort();
        if let Some(f) = files.last() {
            out["schedule_file"] = serde_json::Value::String(f.to_string_lossy().into_owned());
        }
    }
    println!("RESULT {}", out);
    if out["failed"] == true {
        std::process::exit(1);
    }
    let _ = std::fs::remove_dir_all(scratch());
}

fn verif_dir() -> String {
    std::env::var("VERIF_DIR").unwrap_or_else(|_| "/verif".to_string())
}

fn class_of(msg: &str) -> String {
    // "C41 <oracle> ..." -> oracle name; shuttle's own messages -> deadlock / step limit
    if let Some(i) = msg.find("C41 ") {
        return msg[i + 4..].split([' ', ':']).next().unwrap_or("assert").to_string();
    }
    if msg.contains("deadlock") {
        return "deadlock".into();
    }
    if msg.contains("exceeded max_steps") || msg.contains("max_steps") {
        return "step-bound-exceeded".into();
    }
    "panic".into()
}

fn check(tier: &str) -> i32 {
    let seed: u64 = std::env::var("VERIF_SEED").ok().and_then(|s| s.parse().ok()).unwrap_or(20260921);
    let jobs: usize = std::env::var("MEMSIM_JOBS").ok().and_then(|s| s.parse().ok()).unwrap_or(16);
    let (iters, rounds) = if tier == "thorough" { (400usize, 4usize) } else { (24usize, 1usize) };
    let iters: usize = std::env::var("SHUTTLESIM_ITERS").ok().and_then(|s| s.parse().ok()).unwrap_or(iters);
    println!("shuttlesim: property=C41 tier={tier} VERIF_SEED={seed} jobs={jobs} iterations/worker={iters}");
    let exe = std::env::current_exe().unwrap();
    let t0 = Instant::now();
    let mut results: Vec<serde_json::Value> = Vec::new();
    let mut dead = 0;
    for round in 0..rounds {
        let mut kids = Vec::new();
        for j in 0..jobs {
            let s = seed.wrapping_add((round * jobs + j) as u64);
            let sched = if j % 2 == 0 { "random" } else { "pct" };
            let c = std::process::Command::new(&exe).args(["worker", &s.to_string(), &iters.to_string(), sched]).stdout(std::process::Stdio::piped()).stderr(std::process::Stdio::null()).spawn().expect("spawn worker");
            kids.push(c);
        }
        for k in kids {
            let o = k.wait_with_output().expect("wait");
            let text = String::from_utf8_lossy(&o.stdout);
            match text.lines().find_map(|l| l.strip_prefix("RESULT ")).and_then(|j| serde_json::from_str::<serde_json::Value>(j).ok()) {
                Some(v) => results.push(v),
                None => dead += 1,
            }
        }
    }
    let findings: Vec<(String, String, String)> = std::fs::read_to_string(format!("{}/KNOWN_FINDINGS.jsonl", verif_dir()))
        .unwrap_or_default()
        .lines()
        .filter_map(|l| serde_json::from_str::<serde_json::Value>(l).ok())
        .filter(|v| v["status"] == "known" && v["property"] == "C41")
        .map(|v| (v["signature"].as_str().unwrap_or("").to_string(), v["what"].as_str().unwrap_or("").to_string(), String::new()))
        .collect();
    let mut exit = 0;
    let mut violations = 0u64;
    let mut known_seen: Vec<String> = Vec::new();
    let mut reported: Vec<String> = Vec::new();
    let _ = std::fs::create_dir_all(format!("{}/replays", verif_dir()));
    for r in results.iter().filter(|r| r["failed"] == true) {
        let msg = r["message"].as_str().unwrap_or("");
        let sig = format!("C41/{}", class_of(msg));
        if let Some((_, what, _)) = findings.iter().find(|f| f.0 == sig) {
            if !known_seen.contains(&sig) {
                println!("KNOWN-FINDING: property=C41 {what} [{sig}]");
                known_seen.push(sig.clone());
            }
            continue;
        }
        if reported.contains(&sig) {
            continue;
        }
        reported.push(sig.clone());
        let src = r["schedule_file"].as_str().unwrap_or("");
        let dst = format!("{}/replays/C41-{}-{}-{}.schedule", verif_dir(), r["seed"], class_of(msg), r["sched"].as_str().unwrap_or("random"));
        let _ = std::fs::copy(src, &dst);
        println!("violation: property=C41 sig={sig} seed={} sched={} iteration={} : {}", r["seed"], r["sched"].as_str().unwrap_or(""), r["iterations"], msg.lines().next().unwrap_or(""));
        println!("VIOLATION property=C41 replay={dst}");
        violations += 1;
        exit = 1;
    }
    // evidence
    let total_iters: u64 = results.iter().map(|r| r["iterations"].as_u64().unwrap_or(0)).sum();
    let mut probes = serde_json::Map::new();
    for r in &results {
        if let Some(p) = r["probes"].as_object() {
            for (k, v) in p {
                let e = probes.entry(k.clone()).or_insert(serde_json::json!(0));
                *e = serde_json::json!(e.as_u64().unwrap_or(0) + v.as_u64().unwrap_or(0));
            }
        }
    }
    let wall = t0.elapsed().as_secs_f64();
    let nontrivial = results.iter().filter(|r| r["probes"]["queued_puts"].as_u64().unwrap_or(0) > 0 && r["probes"]["tasks_processed"].as_u64().unwrap_or(0) > 0).count();
    let ev = serde_json::json!({
        "property_id": "C41", "tier": tier, "seed": seed, "level": "exploration",
        "coverage": {
            "evaluations": total_iters,
            "distinct_nontrivial": nontrivial,
            "rule": "one evaluation = one shuttle schedule of the real start_enrichment_worker thread against a foreground history drawn from shuttle::rand (2..8 steps: puts that ask for background enrichment, plain puts, commits, searches; then a commit, a yielding wait until the queue is empty, stop_and_wait, commit, reopen); half of the worker processes use the seeded random scheduler, half PCT (depth 3); distinct_nontrivial counts worker processes (one seed each) in which at least one queued document was processed by the worker thread; schedules within a process differ by construction of the scheduler but are not deduplicated",
            "samples": results.iter().take(3).cloned().collect::<Vec<_>>(),
            "seeds": {"first": seed, "last": seed + (rounds * jobs) as u64 - 1, "stride": 1},
            "runs_per_hour": if wall > 0.0 { (total_iters as f64 * 3600.0 / wall).round() } else { 0.0 },
            "simulated_seconds": 0,
            "faults_fired": {"schedule_perturbation": total_iters},
            "probes": probes,
            "worker_processes": results.len(),
            "worker_processes_dead": dead,
            "known_findings_seen": known_seen,
            "real_components": ["memvid-core (all of src/) with std::sync / std::thread of enrichment.rs and enrichment_worker.rs taken from shuttle", "tantivy (its own threads are real and not scheduled)", "kernel tmpfs"],
            "stubbed_components": ["thread scheduler (shuttle random / PCT)", "Mutex, Arc, atomics, spawn, sleep, JoinHandle of the worker (shuttle)"],
            "exhaustive": false
        },
        "assumptions": ["a worker that is stopped early may leave tasks queued: the foreground waits (yielding) for an empty queue before it stops the worker, and 'ends Enriched' is judged then", "liveness bound: 3000 yields of the foreground after its last mutation, and shuttle's step bound of 400000"],
        "wall_s": wall,
        "violations": violations
    });
    let _ = std::fs::create_dir_all(format!("{}/evidence", verif_dir()));
    let _ = std::fs::write(format!("{}/evidence/C41.json", verif_dir()), serde_json::to_string_pretty(&ev).unwrap());
    println!("shuttlesim: {} schedules in {} worker processes ({} dead) in {:.1}s; {} violations; {} known findings", total_iters, results.len(), dead, wall, violations, known_seen.len());
    if exit == 0 && (results.is_empty() || dead > results.len() / 4) {
        eprintln!("harness failure: too few completed worker processes");
        return 2;
    }
    exit
}

fn main() {
    let args: Vec<String> = std::env::args().collect();
    match args.get(1).map(|s| s.as_str()) {
        Some("check") => std::process::exit(check(args.get(2).map(|s| s.as_str()).unwrap_or("quick"))),
        Some("worker") => {
            let seed = args.get(2).and_then(|s| s.parse().ok()).unwrap_or(1);
            let iters = args.get(3).and_then(|s| s.parse().ok()).unwrap_or(10);
            worker(seed, iters, args.get(4).map(|s| s.as_str()).unwrap_or("random"));
        }
        Some("replay") => {
            let Some(f) = args.get(2) else { std::process::exit(2) };
            let _ = std::fs::create_dir_all(scratch());
            std::env::set_var("TMPDIR", scratch());
            FAIR.store(if f.ends_with("-pct.schedule") { 0 } else { 1 }, O::SeqCst);
            let f2 = f.clone();
            let r = std::panic::catch_unwind(move || shuttle::replay_from_file(scenario, &f2));
            let _ = std::fs::remove_dir_all(scratch());
            match r {
                Err(p) => {
                    let msg = p.downcast_ref::<String>().cloned().or_else(|| p.downcast_ref::<&str>().map(|s| s.to_string())).unwrap_or_default();
                    println!("violation: property=C41 : {}", msg.lines().next().unwrap_or(""));
                    println!("VIOLATION property=C41 replay={f}");
                    std::process::exit(1);
                }
                Ok(()) => {
                    println!("not reproduced: the recorded schedule passes on this tree");
                    std::process::exit(0);
                }
            }
        }
        _ => {
            eprintln!("usage: shuttlesim check <quick|thorough> | worker <seed> <iters> <random|pct> | replay <file>");
            std::process::exit(2);
        }
    }
}
